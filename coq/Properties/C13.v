(* Properties/C13.v — Binary serialization round-trips to an observationally equal
   merklizer.  ONLY restatements closed by `exact`, each followed by Print Assumptions.
   Model: Merklizer/Binary.v (gob abstracted to a typed wire value; marshal takes the
   map iteration order pi as a parameter) on top of Merklizer/Model.v and SMT/Model.v.
   Proofs: Merklizer/BinaryTheory.v (uses SMT.Theory.add_all_perm_ok, the
   insertion-order independence of the tree).  No hypothesis about hash functions.

   Reading of "a merklizer": the result m0 of MerklizeJSONLD from the entry list on
   (merklize_from_entries), every entry carrying the merklizer's hasher h — what
   EntriesFromRDFWithHasher produces since fix 72b544a.  The source document, the
   compacted document (as JSON text) and the safe-mode flag are arbitrary.
   json_ok = verdict of json.Unmarshal on the compacted bytes (it accepts what
   json.Marshal wrote); inlen = byte length of the stream (at least one byte per
   entry); Hd' = the package default hasher at restore time, cfg = WithHasher
   option: the merklizer is restored with the hasher it was built with. *)
From Coq Require Import ZArith List String Permutation.
From GSP Require Import Base.Prelude Value.Time Value.Model RDF.Model SMT.Model
  Merklizer.Model Merklizer.Theory Merklizer.Binary Merklizer.BinaryTheory.
Import ListNotations.
Open Scope Z_scope.

(* For EVERY order pi in which Go's map iteration may emit the entries: marshalling
   succeeds and restoring yields a merklizer with the entries in stream order, the
   same tree, hasher, documents and flag. *)
Theorem C13_roundtrip :
  forall (T : tparams) (json_ok : string -> bool) (Hd h : hasher) (es : list rdf_entry) (m0 : mz),
  Forall (entry_uses h) es ->
  merklize_from_entries T Hd h None es = Ok m0 ->
  forall pi : list (Z * rdf_entry), Permutation pi (mz_entries m0) ->
  forall (src comp : string) (safe : bool) (Hd' : hasher) (cfg : option hasher) (inlen : Z),
  hasher_or Hd' cfg = h ->
  json_ok comp = true ->
  Z.of_nat (List.length (mz_entries m0)) <= inlen ->
  exists w, marshal T pi (mkmzx m0 src comp safe) = Ok w /\
    unmarshal T Hd' json_ok cfg None inlen w =
    Ok (mkmzx (mkmz pi (mz_tree m0) h) src comp safe).
Proof. exact roundtrip. Qed.
Print Assumptions C13_roundtrip.

(* ... which is observationally equal to the original: same root, same hasher, same
   set of entries (keys, values, datatypes), and for every path and every package
   default hasher the same Entry, JSONLDType and Proof results (RawValue and
   ResolveDocPath depend only on the compacted / source document, the hasher and
   the loader, which C13_roundtrip shows unchanged). *)
Theorem C13_obs_eq :
  forall (T : tparams) (Hd h : hasher) (es : list rdf_entry) (m0 : mz),
  Forall (entry_uses h) es ->
  merklize_from_entries T Hd h None es = Ok m0 ->
  forall pi : list (Z * rdf_entry), Permutation pi (mz_entries m0) ->
  mz_root T (mkmz pi (mz_tree m0) h) = mz_root T m0 /\
  mz_hasher (mkmz pi (mz_tree m0) h) = mz_hasher m0 /\
  Permutation (mz_entries (mkmz pi (mz_tree m0) h)) (mz_entries m0) /\
  forall (Hd'' : hasher) (p : path),
    mz_entry Hd'' (mkmz pi (mz_tree m0) h) p = mz_entry Hd'' m0 p /\
    mz_jsonld_type Hd'' (mkmz pi (mz_tree m0) h) p = mz_jsonld_type Hd'' m0 p /\
    mz_proof T Hd'' (mkmz pi (mz_tree m0) h) p = mz_proof T Hd'' m0 p.
Proof. exact restored_observables. Qed.
Print Assumptions C13_obs_eq.

(* the same, starting from the normalised dataset of a document (MerklizeJSONLD with or
   without WithHasher, fresh tree): for all merklized documents, every map order *)
Theorem C13_roundtrip_document :
  forall (T : tparams) (json_ok : string -> bool) (Hd : hasher) (F : floats) (cfg0 : option hasher)
         (ds : dataset) (m0 : mz),
  merklize_ds T Hd F cfg0 None ds = Ok m0 ->
  forall pi : list (Z * rdf_entry), Permutation pi (mz_entries m0) ->
  forall (src comp : string) (safe : bool) (Hd' : hasher) (cfg : option hasher) (inlen : Z),
  hasher_or Hd' cfg = hasher_or Hd cfg0 ->
  json_ok comp = true ->
  Z.of_nat (List.length (mz_entries m0)) <= inlen ->
  exists w, marshal T pi (mkmzx m0 src comp safe) = Ok w /\
    unmarshal T Hd' json_ok cfg None inlen w =
    Ok (mkmzx (mkmz pi (mz_tree m0) (hasher_or Hd cfg0)) src comp safe) /\
    mz_root T (mkmz pi (mz_tree m0) (hasher_or Hd cfg0)) = mz_root T m0 /\
    Permutation (mz_entries (mkmz pi (mz_tree m0) (hasher_or Hd cfg0))) (mz_entries m0) /\
    forall (Hd'' : hasher) (p : path),
      mz_entry Hd'' (mkmz pi (mz_tree m0) (hasher_or Hd cfg0)) p = mz_entry Hd'' m0 p /\
      mz_jsonld_type Hd'' (mkmz pi (mz_tree m0) (hasher_or Hd cfg0)) p = mz_jsonld_type Hd'' m0 p /\
      mz_proof T Hd'' (mkmz pi (mz_tree m0) (hasher_or Hd cfg0)) p = mz_proof T Hd'' m0 p.
Proof. exact roundtrip_document. Qed.
Print Assumptions C13_roundtrip_document.

(* a member path of the restored merklizer gets an existence proof that verifies
   against the (same) root, with the entry's value under the merklizer's hasher *)
Theorem C13_member_proof :
  forall (T : tparams) (Hd h : hasher) (es : list rdf_entry) (m0 : mz),
  Forall (entry_uses h) es ->
  merklize_from_entries T Hd h None es = Ok m0 ->
  forall pi : list (Z * rdf_entry), Permutation pi (mz_entries m0) ->
  forall (Hd'' : hasher) (p : path) (k : Z) (e : rdf_entry),
  path_mt_entry Hd'' p = Ok k -> In (k, e) (mz_entries m0) ->
  exists pr vh,
    mz_proof T Hd'' (mkmz pi (mz_tree m0) h) p = Ok (pr, Some (mkvalue (re_val e) (Some h))) /\
    ex pr = true /\
    value_mt_entry (mkvalue (re_val e) (Some h)) = Ok vh /\
    verify_proof (tp_hl T) (tp_hm T) (mz_root T (mkmz pi (mz_tree m0) h)) pr
                 (hash_of_z k) (hash_of_z vh) = true.
Proof. exact restored_member_proof. Qed.
Print Assumptions C13_member_proof.

(* a single entry encoded and decoded on its own: parts, value (every kind: int64,
   big integer of either sign, bool, string, time as instant + nanoseconds) and
   datatype are preserved for EVERY entry and receiver; the hashers become the
   receiver's (package default for a zero receiver) *)
Theorem C13_entry :
  forall (Hd : hasher) (recv e : rdf_entry),
  exists ew e',
    entry_marshal e = Ok ew /\ entry_unmarshal Hd recv ew = Ok e' /\
    p_parts (re_key e') = p_parts (re_key e) /\ re_val e' = re_val e /\ re_dt e' = re_dt e /\
    p_hasher (re_key e') = Some (hasher_or Hd (re_hasher recv)) /\
    re_hasher e' = Some (hasher_or Hd (re_hasher recv)).
Proof. exact entry_roundtrip_fields. Qed.
Print Assumptions C13_entry.

(* and it is the identity on entries that carry the receiver's hasher *)
Theorem C13_entry_identity :
  forall (Hd : hasher) (recv e : rdf_entry),
  entry_uses (hasher_or Hd (re_hasher recv)) e ->
  exists ew, entry_marshal e = Ok ew /\ entry_unmarshal Hd recv ew = Ok e.
Proof. exact entry_roundtrip. Qed.
Print Assumptions C13_entry_identity.

(* the tagged union is decoded soundly: a payload is accepted only under the tag of
   its own Go type (an int64 written under the bool tag is an error) *)
Theorem C13_tag_sound :
  forall (tag : Z) (pl : wpayload) (v : xval),
  decode_value tag pl = Ok v -> (tag, pl) = payload_of v.
Proof. exact decode_value_sound. Qed.
Print Assumptions C13_tag_sound.

(* restoring into a caller-provided tree t0 succeeds iff t0 already has the recorded
   root, and then t0 is the restored merklizer's tree, untouched *)
Theorem C13_given_tree :
  forall (T : tparams) (json_ok : string -> bool) (Hd h : hasher) (es : list rdf_entry) (m0 : mz),
  Forall (entry_uses h) es ->
  merklize_from_entries T Hd h None es = Ok m0 ->
  forall pi : list (Z * rdf_entry), Permutation pi (mz_entries m0) ->
  forall (src comp : string) (safe : bool) (Hd' : hasher) (cfg : option hasher) (inlen : Z),
  hasher_or Hd' cfg = h ->
  json_ok comp = true ->
  Z.of_nat (List.length (mz_entries m0)) <= inlen ->
  forall t0 : tree,
  exists w, marshal T pi (mkmzx m0 src comp safe) = Ok w /\
    unmarshal T Hd' json_ok cfg (Some t0) inlen w =
    (if t_root T t0 =? mz_root T m0
     then Ok (mkmzx (mkmz pi t0 h) src comp safe)
     else Err "root-mismatch"%string).
Proof. exact given_tree. Qed.
Print Assumptions C13_given_tree.

(* the declared entry count is validated against the input before anything is
   allocated: negative or larger than the input length is an error ... *)
Theorem C13_count :
  forall (T : tparams) (Hd : hasher) (json_ok : string -> bool) (cfg : option hasher)
         (t0 : option tree) (inlen : Z) (w : wire),
  w_ver w = mz_version -> json_ok (w_compacted w) = true ->
  (match t0 with None => True | Some t => t_root T t = w_root w end) ->
  w_n w < 0 \/ w_n w > inlen ->
  unmarshal T Hd json_ok cfg t0 inlen w = Err "entry-count"%string.
Proof. exact count_rejected. Qed.
Print Assumptions C13_count.

(* ... and UnmarshalBinary is total on EVERY wire value: it never diverges and never
   panics (the only Panic the model can produce is the "oracle-miss" of a hasher
   table, a modelling artefact that a total hasher never triggers) *)
Theorem C13_total :
  forall (T : tparams) (Hd : hasher) (json_ok : string -> bool) (cfg : option hasher)
         (t0 : option tree) (inlen : Z) (w : wire),
  (forall s, unmarshal T Hd json_ok cfg t0 inlen w = Panic s -> s = miss_tag) /\
  unmarshal T Hd json_ok cfg t0 inlen w <> Diverge.
Proof. exact unmarshal_total. Qed.
Print Assumptions C13_total.

(* ---- restore entry points (MerklizerFromBytes with / without options, zero-value
   UnmarshalBinary, encoding/gob) ---- *)

(* MerklizerFromBytes(blob, opts) = UnmarshalBinary on a Merklizer carrying just the options
   (presetting the default hasher = defaulting a nil hasher inside), and the option-less
   entry points all coincide *)
Theorem C13_restore_entry_points_agree :
  forall (L : Type) (T : tparams) (Hd : hasher) (json_ok : string -> bool) (inlen : Z) (w : wire),
  (forall o : ropts L,
     from_bytes T Hd json_ok o inlen w =
     (x <- unmarshal T Hd json_ok (o_hasher o) (o_tree o) inlen w ;; Ok (x, o_loader o))) /\
  @from_bytes L T Hd json_ok (mkropts None None None) inlen w = unmarshal_zero T Hd json_ok inlen w /\
  @gob_decode L T Hd json_ok inlen w = unmarshal_zero T Hd json_ok inlen w.
Proof. exact entry_points_agree_all. Qed.
Print Assumptions C13_restore_entry_points_agree.

(* the hasher of a restored merklizer is never nil: Hasher() is the WithHasher option, else
   the package default at restore time, and MkValue(v).MtEntry() hashes with it; the
   WithDocumentLoader option is kept, so ResolveDocPath uses it (else the package default) *)
Theorem C13_hasher_defaulted :
  forall (L : Type) (T : tparams) (Hd : hasher) (json_ok : string -> bool) (o : ropts L)
         (inlen : Z) (w : wire) (r : restored L),
  from_bytes T Hd json_ok o inlen w = Ok r ->
  r_hasher r = hasher_or Hd (o_hasher o) /\
  (forall v, r_mk_value r v = mk_value_entry (hasher_or Hd (o_hasher o)) v) /\
  snd r = o_loader o /\
  forall dflt, effective_loader dflt r = match o_loader o with Some l => l | None => dflt end.
Proof. exact (@restored_hasher_and_loader). Qed.
Print Assumptions C13_hasher_defaulted.

Theorem C13_hasher_defaulted_zero :
  forall (T : tparams) (Hd : hasher) (json_ok : string -> bool) (cfg : option hasher) (t0 : option tree)
         (inlen : Z) (w : wire) (x : mzx),
  unmarshal T Hd json_ok cfg t0 inlen w = Ok x ->
  mz_hasher (x_mz x) = hasher_or Hd cfg /\
  forall v, (y <- mz_mk_value (x_mz x) v ;; value_mt_entry y) = mk_value_entry (hasher_or Hd cfg) v.
Proof. exact hasher_defaulted. Qed.
Print Assumptions C13_hasher_defaulted_zero.

(* the round trip through every entry point: all of them give the same merklizer *)
Theorem C13_roundtrip_entry_points :
  forall (L : Type) (T : tparams) (json_ok : string -> bool) (Hd h : hasher) (es : list rdf_entry) (m0 : mz),
  Forall (entry_uses h) es ->
  merklize_from_entries T Hd h None es = Ok m0 ->
  forall pi : list (Z * rdf_entry), Permutation pi (mz_entries m0) ->
  forall (src comp : string) (safe : bool) (Hd' : hasher) (cfg : option hasher) (l : option L) (inlen : Z),
  hasher_or Hd' cfg = h ->
  json_ok comp = true ->
  Z.of_nat (List.length (mz_entries m0)) <= inlen ->
  exists w, marshal T pi (mkmzx m0 src comp safe) = Ok w /\
    let X := mkmzx (mkmz pi (mz_tree m0) h) src comp safe in
    from_bytes T Hd' json_ok (mkropts cfg None l) inlen w = Ok (X, l) /\
    (cfg = None ->
       @unmarshal_zero L T Hd' json_ok inlen w = Ok (X, None) /\
       @gob_decode L T Hd' json_ok inlen w = Ok (X, None) /\
       @from_bytes L T Hd' json_ok (mkropts None None None) inlen w = Ok (X, None)).
Proof. exact (@roundtrip_entry_points). Qed.
Print Assumptions C13_roundtrip_entry_points.

(* seeded variants are refuted in the model: C13-j (a nil hasher is no longer defaulted:
   MkValue(..).MtEntry() dereferences nil), C13-f (the loader option is forgotten: another
   loader resolves the document's contexts) *)
Theorem C13_variant_j_refuted :
  exists v, mk_value_variant_j None v = Panic "nil-hasher"%string.
Proof. exact variant_j_refuted. Qed.
Print Assumptions C13_variant_j_refuted.

Theorem C13_variant_f_refuted :
  exists (o : ropts nat) (dflt : nat), forall T Hd json_ok inlen w r r',
    from_bytes T Hd json_ok o inlen w = Ok r ->
    from_bytes_variant_f T Hd json_ok o inlen w = Ok r' ->
    effective_loader dflt r <> effective_loader dflt r'.
Proof. exact variant_f_refuted. Qed.
Print Assumptions C13_variant_f_refuted.
