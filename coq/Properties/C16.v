(* Properties/C16.v — A configured hasher is honoured end to end.  ONLY restatements
   closed by `exact`, each followed by Print Assumptions.
   Model: Merklizer/Model.v, Merklizer/Script.v; proofs: Merklizer/Theory.v.

   Reading.  Every model function takes the package variable defaultHasher as an
   explicit argument exactly where the Go code reads it.  A script is
   MerklizeJSONLD(doc, WithHasher(Hc)) followed by caller steps (Root, path key,
   Proof + Value hash + VerifyProof, Entry + KeyValueMtEntries, JSONLDType, a new
   RDFEntry, MkValue) whose Paths / entries / values are created through the
   merklizer's own Options (`via_options`).  `D i` is the value of defaultHasher
   while call number i runs (SetHasher may change it between calls).  Non-interference:
   the complete list of observations is the same for every D — the default hasher is
   never consulted, so it cannot be silently substituted. *)
From Coq Require Import ZArith List String Bool.
From GSP Require Import Base.Prelude Value.Time Value.Model Value.Theory RDF.Model SMT.Model
  Merklizer.Model Merklizer.Script Merklizer.Theory.
Import ListNotations.
Open Scope Z_scope.

Theorem C16_noninterference :
  forall (T : tparams) (F : floats) (D D' : nat -> hasher) (Hc : hasher) (ds : dataset)
         (script : list step),
  forallb via_options script = true ->
  run T F D (Some Hc) ds script = run T F D' (Some Hc) ds script.
Proof. exact noninterference. Qed.
Print Assumptions C16_noninterference.

(* the same for whole histories on a caller-provided tree shared by several configured
   merklizers (documents merklized into it with WithHasher, direct tree.Add calls, caller
   steps on any of the merklizers): final state and all observations are independent of
   the default-hasher stream *)
Theorem C16_noninterference_shared_tree :
  forall (T : tparams) (D D' : nat -> hasher) (gs : list gstep),
  forallb (fun g => match g with
                    | GMerklize (Some _) _ => true
                    | GMerklize None _ => false
                    | GAdd _ _ => true
                    | GOn _ s => via_options s
                    end) gs = true ->
  grun T D 0 shared_init gs = grun T D' 0 shared_init gs.
Proof. exact shared_noninterference_init. Qed.
Print Assumptions C16_noninterference_shared_tree.

(* MerklizeJSONLD itself (entries map, tree, stored hasher), also on a caller-provided tree *)
Theorem C16_merklize_independent :
  forall (T : tparams) (F : floats) (Hc : hasher) (t0 : option tree) (ds : dataset)
         (Hd Hd' : hasher),
  merklize_ds T Hd F (Some Hc) t0 ds = merklize_ds T Hd' F (Some Hc) t0 ds.
Proof. exact merklize_ds_indep. Qed.
Print Assumptions C16_merklize_independent.

(* every key and every value hash the merklizer stores is produced by Hc: each stored
   entry and its Path carry Hc, it sits under hash_path Hc (its parts), and the tree
   holds the leaf (that key, mk_value_entry Hc (its value)) *)
Theorem C16_stored_hashes :
  forall (T : tparams) (Hd : hasher) (F : floats) (Hc : hasher) (ds : dataset) (m : mz),
  merklize_ds T Hd F (Some Hc) None ds = Ok m ->
  mz_hasher m = Hc /\
  forall k e, In (k, e) (mz_entries m) ->
    re_hasher e = Some Hc /\ p_hasher (re_key e) = Some Hc /\
    hash_path Hc (p_parts (re_key e)) = Ok k /\
    exists vh, mk_value_entry Hc (re_val e) = Ok vh /\
               In (hash_of_z k, hash_of_z vh) (leaves (mz_tree m)).
Proof. exact configured_entries. Qed.
Print Assumptions C16_stored_hashes.

(* integer ranges follow the configured hasher's prime: every integer-typed entry lies
   in the range of prime(Hc) for its XSD type and is stored as v (v >= 0) or
   prime(Hc) + v (v < 0) *)
Theorem C16_prime :
  forall (T : tparams) (Hd : hasher) (F : floats) (Hc : hasher) (ds : dataset) (m : mz),
  (3 <= h_prime Hc /\ Z.odd (h_prime Hc) = true) ->
  merklize_ds T Hd F (Some Hc) None ds = Ok m ->
  forall k e ik, In (k, e) (mz_entries m) -> classify (re_dt e) = DInt ik ->
  exists z, re_val e = XBig z /\
            lo ik (h_prime Hc) <= z <= hi ik (h_prime Hc) /\
            In (hash_of_z k, hash_of_z (if z <? 0 then h_prime Hc + z else z))
               (leaves (mz_tree m)).
Proof. exact prime_follows_configured. Qed.
Print Assumptions C16_prime.

(* Path.Append / Path.Prepend keep the path's hasher and the order of parts: a path made by any
   Options / merklizer API (every kind except the package-level NewPath) from `mid`, then
   Append(post), then Prepend(pre), has the key of the path built in one go under the merklizer's
   hasher, whatever the default hasher is at either time *)
Theorem C16_path_build_key :
  forall (Hd Hd' : hasher) (m : mz) (pk : pkind) (pre mid post : list part),
  pk <> PKPackage ->
  path_mt_entry Hd (path_prepend (path_append (mk_path Hd m pk mid) post) pre) =
  hash_path (mz_hasher m) (pre ++ mid ++ post) /\
  path_mt_entry Hd' (path_prepend (path_append (mk_path Hd' m pk mid) post) pre) =
  hash_path (mz_hasher m) (pre ++ mid ++ post).
Proof. exact path_build_key. Qed.
Print Assumptions C16_path_build_key.
