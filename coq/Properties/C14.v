(* Properties/C14.v — The credential struct view is lossless for merklization.
   ONLY restatements closed by `exact`, each followed by Print Assumptions.
   Model: Codec/Model.v (generic encoding/json struct codec + the hand-written codecs
   of /repo/verifiable) on the descriptors of Generated/Structs.v (extracted from
   /repo on every run); proofs: Codec/JsonTheory.v, Codec/Theory.v, Codec/Lossless.v,
   Codec/W3C.v.  encoding/json's reflection semantics are MODELLED (validated per run
   against the real library), not verified.

   Reading guide:
   * cred_decode O j          = json.Unmarshal(j, &W3CCredential{})
   * cred_merklize_doc O c    = the document (vc *W3CCredential).Merklize hands to
                                merklize.MerklizeJSONLD (marshal, map, delete, marshal)
   * cred_reference_doc O j   = the original document minus the deleted members, as a
                                generic map (what MerklizeJSONLD(original minus proof) reads)
   * w3c_supported O j        = the supported shape (Codec/W3C.v): an object with distinct
       member names among the twelve JSON names of W3CCredential; "@context" and "type"
       arrays of strings; "issuer" a string; "credentialSubject" any object;
       "credentialSchema" exactly {id, type} strings; optional (absent or, except "id",
       null): "id" a non-empty string, "expirationDate"/"issuanceDate" RFC 3339 strings
       accepted by time.Time whose zone hour is < 24, "credentialStatus" any non-null
       value, "refreshService"/"displayMethod" exactly {id, type}; "proof" anything the
       proof decoder accepts (0..n proofs of known and unknown types); numbers in
       float64 range.
   * jget_nn k d              = member k of d, JSON null counting as absent
   * same_time x y            = both absent, or two strings that time.Time parses to the
                                same civil time and zone offset (same instant). *)
From Coq Require Import ZArith List String.
From GSP Require Import Base.Prelude Value.Time Codec.Desc Codec.Json Codec.JsonTheory Codec.Time Codec.Model Codec.Theory
  Codec.Lossless Codec.Roundtrip Codec.State Codec.StateTheory Codec.Inst Codec.W3C Generated.Structs.
Import ListNotations.
Open Scope string_scope.

(* W3CCredential.Merklize deletes exactly the member "proof" (checked on the source of
   this run), and the descriptors of this run satisfy the side conditions *)
Theorem C14_merklize_deletes_only_proof : merklize_deleted = ["proof"].
Proof. exact merklize_deletes_exactly_proof. Qed.
Print Assumptions C14_merklize_deletes_only_proof.

Theorem C14_descriptors_lossless : top_ok merklize_deleted d_W3CCredential = true.
Proof. exact w3c_side_conditions. Qed.
Print Assumptions C14_descriptors_lossless.

(* For every document of the supported shape: it decodes, Merklize's document and the
   original-minus-proof document exist, and they have the same members: equal values
   (as normalised JSON) except that absent optionals may be null in the original and the
   two dates may be re-spelled (same instant, same offset).  The hypothesis is about
   external code: printing a float64 and parsing it again is idempotent. *)
Theorem C14_lossless :
  forall (O : oracles),
  (forall n n', o_renum O n = Some n' -> o_renum O n' = Some n') ->
  forall j, w3c_supported O j ->
  exists c d r,
    cred_decode O j = Ok c /\
    cred_merklize_doc O c = Ok (JObj d) /\
    cred_reference_doc O j = Ok (JObj r) /\
    forall k,
      (k = "expirationDate" \/ k = "issuanceDate" -> same_time (jget_nn k d) (jget_nn k r)) /\
      (k <> "expirationDate" -> k <> "issuanceDate" -> jget_nn k d = jget_nn k r).
Proof. exact cred_lossless. Qed.
Print Assumptions C14_lossless.

(* hence the same facts and the same root: for any merklizer mz that is a function of the
   members up to null-omission and the spelling of the two dates *)
Theorem C14_same_root :
  forall (R : Type) (mz : json -> R) (O : oracles) (j : json),
  (forall n n', o_renum O n = Some n' -> o_renum O n' = Some n') ->
  (forall d r : members,
     (forall k,
       (k = "expirationDate" \/ k = "issuanceDate" -> same_time (jget_nn k d) (jget_nn k r)) /\
       (k <> "expirationDate" -> k <> "issuanceDate" -> jget_nn k d = jget_nn k r)) ->
     mz (JObj d) = mz (JObj r)) ->
  w3c_supported O j ->
  exists c d r, cred_decode O j = Ok c /\ cred_merklize_doc O c = Ok d /\
                cred_reference_doc O j = Ok r /\ mz d = mz r.
Proof. exact cred_same_root. Qed.
Print Assumptions C14_same_root.

(* the document handed to the merklizer (hence its facts and its root) is the same for
   two credentials that differ only in fields Merklize deletes (agree_out: field by
   field, equal values or a deleted key), i.e. it does not depend on the content or the
   number of proofs *)
Theorem C14_proof_independent :
  forall (O : oracles) (c c' : list gval) (d d' : json),
  agree_out merklize_deleted d_W3CCredential c c' ->
  cred_merklize_doc O c = Ok d -> cred_merklize_doc O c' = Ok d' -> d = d'.
Proof. exact cred_merklize_doc_independent. Qed.
Print Assumptions C14_proof_independent.

(* same_time is "same instant" for the merklizer: the xsd:dateTime parser of Value/Time.v
   (C04_time) returns the same (Unix seconds, nanoseconds) for both spellings *)
Theorem C14_same_time_same_instant :
  forall s s' t, parse_time s = Some t -> parse_time s' = Some t ->
  parse_rfc3339 (str_to_list s) = parse_rfc3339 (str_to_list s') /\ parse_rfc3339 (str_to_list s) <> None.
Proof. exact same_time_same_instant. Qed.
Print Assumptions C14_same_time_same_instant.

(* time.Time's JSON codec (model in Codec/Time.v): printing a parsed time and parsing it
   again gives the same time *)
Theorem C14_time_roundtrip :
  forall s t s', parse_time s = Some t -> format_time t = Some s' -> parse_time s' = Some t.
Proof. exact Codec.TimeTheory.time_roundtrip. Qed.
Print Assumptions C14_time_roundtrip.

(* json.Unmarshal ; json.Marshal ; json.Unmarshal gives the credential back, for EVERY
   document the decoder accepts (any shape, any member order / case / duplicates, any list
   of proofs).  Equal credential = equal proof list, hence the same concrete proof kinds
   (all_kinds) and the same outcome of anything computed from it.
   Hypotheses about external code: float64 printing is idempotent; merkletree.Proof's
   codec is idempotent, never prints null, has no member named "type" and ignores an
   added "type" member, and its output is normal (strings and booleans).  Known proofs
   (the three structs, through extractProof's re-marshal of the generic map and the
   hand-written decoders, Codec/Known.v) and unknown proof types (CommonProof) alike. *)
Theorem C14_roundtrip :
  forall (O : oracles),
  (forall n n', o_renum O n = Some n' -> o_renum O n' = Some n') ->
  (forall j p, o_mtp O j = Some p -> p <> JNull /\ o_mtp O p = Some p) ->
  (forall j pm t, o_mtp O j = Some (JObj pm) ->
     o_mtp O (JObj (mins "type" (JStr t) (msort pm))) = Some (JObj pm) /\
     (forall a, In a (keys pm) -> fold_eqb a "type" = false)) ->
  (forall j p, o_mtp O j = Some p -> norm (o_renum O) p = Some p) ->
  forall j c e,
  cred_decode O j = Ok c -> cred_encode c = Ok e -> cred_decode O e = Ok c.
Proof. exact cred_roundtrip. Qed.
Print Assumptions C14_roundtrip.

(* DID documents (authentication entries as reference strings or embedded methods, state
   info, GIST proof): the same round trip, for every decoded document that is canonical
   (no omitempty list / map member is empty-but-present: `"service": []` decodes to an
   empty slice, is dropped by omitempty and comes back as nil). *)
Theorem C14_did_roundtrip :
  forall (O : oracles),
  (forall n n', o_renum O n = Some n' -> o_renum O n' = Some n') ->
  (forall j p, o_mtp O j = Some p -> p <> JNull /\ o_mtp O p = Some p) ->
  (forall j pm t, o_mtp O j = Some (JObj pm) ->
     o_mtp O (JObj (mins "type" (JStr t) (msort pm))) = Some (JObj pm) /\
     (forall a, In a (keys pm) -> fold_eqb a "type" = false)) ->
  (forall j p, o_mtp O j = Some p -> norm (o_renum O) p = Some p) ->
  forall j c e,
  did_decode O j = Ok c ->
  canon (ccanon1 repo_env) (KStruct d_DIDDocument) (VStruct c) ->
  did_encode c = Ok e -> did_decode O e = Ok c.
Proof. exact did_roundtrip. Qed.
Print Assumptions C14_did_roundtrip.

(* ---- the hand-written codecs of did_doc.go / proof.go, one value at a time ---- *)

(* GistInfoProof: decode (decodeMTP on the whole object + "type"), encode (the proof's own
   members, under the names merkletree.Proof gives them, + "type"), decode: the same value *)
Theorem C14_gist_roundtrip :
  forall (O : oracles),
  (forall j p, o_mtp O j = Some p -> p <> JNull /\ o_mtp O p = Some p) ->
  (forall j pm t, o_mtp O j = Some (JObj pm) ->
     o_mtp O (JObj (mins "type" (JStr t) (msort pm))) = Some (JObj pm) /\
     (forall a, In a (keys pm) -> fold_eqb a "type" = false)) ->
  forall j v e, dec_gist O j = Ok v -> enc_gist v = Ok e -> dec_gist O e = Ok v.
Proof. exact gist_roundtrip. Qed.
Print Assumptions C14_gist_roundtrip.

(* seeds C14-n / C14-p (the auxiliary node printed as "nodeAux"): refuted on a concrete proof *)
Theorem C14_gist_nodeAux_refuted :
  exists v e, dec_gist ex_oracles3 ex_gist = Ok v /\ enc_gist_nodeAux v = Ok e /\ dec_gist ex_oracles3 e <> Ok v.
Proof. exact gist_nodeAux_refuted. Qed.
Print Assumptions C14_gist_nodeAux_refuted.

(* one proof of a credential, of a known type (through extractProof's re-marshal and the
   hand-written decoder) or of an unknown type (CommonProof) *)
Theorem C14_proof_roundtrip :
  forall (O : oracles),
  (forall n n', o_renum O n = Some n' -> o_renum O n' = Some n') ->
  (forall j p, o_mtp O j = Some p -> p <> JNull /\ o_mtp O p = Some p) ->
  (forall j p, o_mtp O j = Some p -> norm (o_renum O) p = Some p) ->
  forall j p e,
  extract_proof O repo_env j = Ok p -> enc_proof repo_env p = Ok e -> extract_proof O repo_env e = Ok p.
Proof. exact proof_roundtrip. Qed.
Print Assumptions C14_proof_roundtrip.

(* one authentication / assertionMethod entry: an object decodes to an embedded method, a
   non-empty string to a reference, the encoding of a reference is that string and the
   encoding of a method is an object, and encode-then-decode gives the entry back *)
Theorem C14_auth_embedded_vs_reference :
  forall (O : oracles) j a e,
  dec_auth O repo_env j = Ok a -> enc_auth repo_env a = Ok e ->
  match j with
  | JObj _ => (exists vals, a = VAuthMethod vals) /\ exists m, e = JObj m
  | JStr s => if String.eqb s "" then a = VAuthMethod (zeros (pe_cvm repo_env)) else a = VAuthDid s /\ e = JStr s
  | _ => False
  end.
Proof. exact auth_embedded_vs_reference. Qed.
Print Assumptions C14_auth_embedded_vs_reference.

Theorem C14_auth_roundtrip :
  forall (O : oracles),
  (forall n n', o_renum O n = Some n' -> o_renum O n' = Some n') ->
  (forall j p, o_mtp O j = Some p -> p <> JNull /\ o_mtp O p = Some p) ->
  (forall j pm t, o_mtp O j = Some (JObj pm) ->
     o_mtp O (JObj (mins "type" (JStr t) (msort pm))) = Some (JObj pm) /\
     (forall a, In a (keys pm) -> fold_eqb a "type" = false)) ->
  forall j a e,
  dec_auth O repo_env j = Ok a ->
  match a with VAuthMethod vals => canon0 (KStruct (pe_cvm repo_env)) (VStruct vals) | _ => True end ->
  enc_auth repo_env a = Ok e -> dec_auth O repo_env e = Ok a.
Proof. exact auth_roundtrip. Qed.
Print Assumptions C14_auth_roundtrip.

(* seed C14-f (a method without type printed as a reference): refuted *)
Theorem C14_auth_untyped_as_reference_refuted :
  exists j a e, dec_auth ex_oracles2 repo_env j = Ok a /\ enc_auth_untyped_as_reference a = Ok e /\
                dec_auth ex_oracles2 repo_env e <> Ok a.
Proof. exact auth_untyped_as_reference_refuted. Qed.
Print Assumptions C14_auth_untyped_as_reference_refuted.

(* Authentication.UnmarshalJSON as a function of (receiver, JSON): whatever the receiver
   held, what IsDID / DID / MarshalJSON see afterwards (auth_view) is what a fresh decode
   gives; the one exception is the empty reference string "", which only clears did
   (dec_auth_into_empty_reference_keeps_method) *)
Theorem C14_decode_overwrites :
  forall (O : oracles) (prev : option auth_state) (j : json),
  j <> JStr "" ->
  res_map auth_view (dec_auth_into O repo_env prev j) = dec_auth O repo_env j.
Proof. exact (fun O => dec_auth_into_overwrites O repo_env). Qed.
Print Assumptions C14_decode_overwrites.

(* seeds C14-c / C14-q (did not reset) and C14-m (method never stored): refuted *)
Theorem C14_decode_keeps_did_refuted :
  exists prev j, j <> JStr "" /\
    res_map auth_view (dec_auth_into_keeps_did ex_oracles2 repo_env prev j) <> dec_auth ex_oracles2 repo_env j.
Proof. exact decode_keeps_did_refuted. Qed.
Print Assumptions C14_decode_keeps_did_refuted.

Theorem C14_decode_drops_method_refuted :
  exists prev j, j <> JStr "" /\
    res_map auth_view (dec_auth_into_drops_method ex_oracles2 repo_env prev j) <> dec_auth ex_oracles2 repo_env j.
Proof. exact decode_drops_method_refuted. Qed.
Print Assumptions C14_decode_drops_method_refuted.

(* ---- purity: Merklize / ToCoreClaim / verifyCredentialCoreClaim as state-passing
   functions (credential in, credential out); the JSON-LD merklizer (mzld), the rest of
   ToCoreClaim (build) and the comparison (compare) are arbitrary, failing or not ---- *)
Theorem C14_tocoreclaim_pure :
  forall (O : oracles) (R C : Type) (mzld : json -> res R) (build : list gval -> R -> res C)
         (compare : C -> res unit) (c : list gval),
  fst (merklize_st O repo_env merklize_deleted d_W3CCredential R mzld c) = c /\
  fst (tocoreclaim_st O repo_env merklize_deleted d_W3CCredential R C mzld build c) = c /\
  fst (verifyclaim_st O repo_env merklize_deleted d_W3CCredential R C mzld build compare c) = c.
Proof. exact (fun O R C mzld build compare c => conj eq_refl (conj eq_refl eq_refl)). Qed.
Print Assumptions C14_tocoreclaim_pure.

(* seeds C14-o / C14-d (proofs detached, restored on the success path only): refuted by a
   credential with three proofs and a failing JSON-LD step *)
Theorem C14_merklize_detach_refuted :
  match cred_decode ex_oracles2 ex_cred2 with
  | Ok c => fst (merklize_st_detach ex_oracles2 repo_env merklize_deleted d_W3CCredential unit
                   (fun _ => Err "network is down") c) <> c
  | _ => False
  end.
Proof. exact merklize_detach_refuted. Qed.
Print Assumptions C14_merklize_detach_refuted.

Theorem C14_verifyclaim_detach_refuted :
  match cred_decode ex_oracles2 ex_cred2 with
  | Ok c => fst (verifyclaim_st_detach ex_oracles2 repo_env merklize_deleted d_W3CCredential unit unit
                   (fun _ => Err "network is down") (fun _ _ => Ok tt) (fun _ => Ok tt) c) <> c
  | _ => False
  end.
Proof. exact verifyclaim_detach_refuted. Qed.
Print Assumptions C14_verifyclaim_detach_refuted.

(* non-vacuity: a concrete document is in the supported shape *)
Theorem C14_supported_shape_inhabited : w3c_supported ex_oracles ex_doc.
Proof. exact ex_doc_supported. Qed.
Print Assumptions C14_supported_shape_inhabited.
