(* Properties/C14.v — The credential struct view is lossless for merklization.
   ONLY restatements closed by `exact`, each followed by Print Assumptions.
   Model: Codec/Model.v (generic encoding/json struct codec + the hand-written codecs
   of /repo/verifiable) on the descriptors of Generated/Structs.v (extracted from
   /repo on every run); proofs: Codec/JsonTheory.v, Codec/Theory.v, Codec/W3C.v.
   encoding/json's reflection semantics are MODELLED (validated per run), not verified. *)
From Coq Require Import ZArith List String.
From GSP Require Import Base.Prelude Codec.Desc Codec.Json Codec.Time Codec.Model Codec.Theory
  Codec.Inst Codec.W3C Generated.Structs.
Import ListNotations.
Open Scope string_scope.

(* W3CCredential.Merklize deletes exactly the member "proof" *)
Theorem C14_merklize_deletes_only_proof : merklize_deleted = ["proof"].
Proof. exact merklize_deletes_exactly_proof. Qed.
Print Assumptions C14_merklize_deletes_only_proof.

(* the document handed to the merklizer (hence its facts and its root) is the same for
   two credentials that differ only in fields Merklize deletes (agree_out: field by
   field, equal values or a deleted key), i.e. it does not depend on the content or the
   number of proofs *)
Theorem C14_proof_independent :
  forall (O : oracles) (c c' : list gval) (d d' : json),
  agree_out merklize_deleted d_W3CCredential c c' ->
  cred_merklize_doc O c = Ok d -> cred_merklize_doc O c' = Ok d' -> d = d'.
Proof. exact cred_merklize_doc_independent. Qed.
Print Assumptions C14_proof_independent.
