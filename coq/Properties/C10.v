(* Properties/C10.v — Standalone value hashing equals the merklized leaf.
   ONLY restatements closed by `exact`, each followed by Print Assumptions.
   Model: Value/Model.v (value_to_hash = convertAnyToString ; convertStringToXSDValue ;
   mkValueMtEntry) and Value/Leaf.v (to_rdf_lex = json-gold's native-value -> literal
   conversion; leaf_value = convertStringToXSDValue ; mkValueMtEntry on the literal;
   proof_value_entry = MtEntry of the Value returned by Proof).  Proofs: Value/LeafTheory.v.

   Floats are abstract (IEEE bit patterns).  The premise about F is the assumed
   behaviour of strconv.ParseFloat and ld.GetCanonicalDouble ("%1.15E"); every
   instance that occurs in a run is re-validated inside the case files
   (Value/LeafRun.v canon_idem_at), as is Value.Model.float_int64 against the real
   `f == float64(int64(f))` test (int64_at). *)
From Coq Require Import ZArith List String.
From GSP Require Import Base.Prelude Value.Time Value.Model Value.Leaf Value.LeafTheory.
Import ListNotations.
Open Scope Z_scope.

(* For every hasher H and every literal {"@value": v, "@type": declared?} whose JSON
   value v is a boolean, a number or a string (this covers the natural kinds of
   every supported datatype: numbers or numeric strings for the integer types and
   xsd:double, booleans or 0/1 for xsd:boolean, strings for xsd:dateTime and
   xsd:string), with (lex, dt) the lexical form and datatype json-gold gives the
   RDF literal:  HashValueWithHasher(H, dt, RawValue) = the leaf computed from the
   literal (equal values, or the same failure on both sides). *)
Theorem C10_agree :
  forall (F : floats),
  (forall b c, f_canon F b = Some c ->
               exists b', f_parse F c = Some (Some b') /\ f_canon F b' = Some c) ->
  forall (H : hasher) (declared : option string) (v : jval) (lex dt : string),
  to_rdf_lex F declared v = Ok (lex, dt) ->
  value_to_hash H F dt (raw v) = leaf_value H F dt lex.
Proof. exact agree. Qed.
Print Assumptions C10_agree.

(* The Go value stored for a literal has the kind implied by the datatype
   (boolean -> bool, the five integer types -> *big.Int, dateTime -> time.Time,
   double and every other datatype -> string), and the Value returned with a
   proof hashes to the leaf, for every hasher. *)
Theorem C10_kind :
  forall (H : hasher) (F : floats) (dt lex : string) (x : xval),
  leaf_entry F dt lex (h_prime H) = Ok x ->
  kind_of x = kind_implied (classify dt) /\
  proof_value_entry H x = leaf_value H F dt lex.
Proof. exact kind_and_proof_value. Qed.
Print Assumptions C10_kind.

(* fmt "%d" followed by big.Rat.SetString / IsInt / Num is the identity: the common
   lexical form of an integral JSON number denotes that integer on both paths *)
Theorem C10_int_roundtrip : forall z : Z, int_from_str (z_to_string z) = Some z.
Proof. exact int_from_str_z_to_string. Qed.
Print Assumptions C10_int_roundtrip.
