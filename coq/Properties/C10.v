(* Properties/C10.v — Standalone value hashing equals the merklized leaf.
   ONLY restatements closed by `exact`, each followed by Print Assumptions.
   Model: Value/Model.v (value_to_hash = convertAnyToString ; convertStringToXSDValue ;
   mkValueMtEntry) and Value/Leaf.v (to_rdf_lex = json-gold's native-value -> literal
   conversion; leaf_value = convertStringToXSDValue ; mkValueMtEntry on the literal;
   proof_value_entry = MtEntry of the Value returned by Proof).  Proofs: Value/LeafTheory.v.

   Floats are abstract (IEEE bit patterns).  The premise about F is the assumed
   behaviour of strconv.ParseFloat and ld.GetCanonicalDouble ("%1.15E"); every
   instance that occurs in a run is re-validated inside the case files
   (Value/LeafRun.v canon_idem_at), as is Value.Model.float_int64 against the real
   `f == float64(int64(f))` test (int64_at). *)
From Coq Require Import ZArith List String.
From GSP Require Import Base.Prelude Value.Time Value.Model Value.Leaf Value.LeafTheory
  RDF.Model SMT.Model Merklizer.Model Merklizer.Script Value.LeafPinned.
Import ListNotations.
Open Scope Z_scope.

(* For every hasher H and every literal {"@value": v, "@type": declared?} whose JSON
   value v is a boolean, a number or a string (this covers the natural kinds of
   every supported datatype: numbers or numeric strings for the integer types and
   xsd:double, booleans or 0/1 for xsd:boolean, strings for xsd:dateTime and
   xsd:string), with (lex, dt) the lexical form and datatype json-gold gives the
   RDF literal:  HashValueWithHasher(H, dt, RawValue) = the leaf computed from the
   literal (equal values, or the same failure on both sides). *)
Theorem C10_agree :
  forall (F : floats),
  (forall b c, f_canon F b = Some c ->
               exists b', f_parse F c = Some (Some b') /\ f_canon F b' = Some c) ->
  forall (H : hasher) (declared : option string) (v : jval) (lex dt : string),
  to_rdf_lex F declared v = Ok (lex, dt) ->
  value_to_hash H F dt (raw v) = leaf_value H F dt lex.
Proof. exact agree. Qed.
Print Assumptions C10_agree.

(* The Go value stored for a literal has the kind implied by the datatype
   (boolean -> bool, the five integer types -> *big.Int, dateTime -> time.Time,
   double and every other datatype -> string), and the Value returned with a
   proof hashes to the leaf, for every hasher. *)
Theorem C10_kind :
  forall (H : hasher) (F : floats) (dt lex : string) (x : xval),
  leaf_entry F dt lex (h_prime H) = Ok x ->
  kind_of x = kind_implied (classify dt) /\
  proof_value_entry H x = leaf_value H F dt lex.
Proof. exact kind_and_proof_value. Qed.
Print Assumptions C10_kind.

(* fmt "%d" followed by big.Rat.SetString / IsInt / Num is the identity: the common
   lexical form of an integral JSON number denotes that integer on both paths *)
Theorem C10_int_roundtrip : forall z : Z, int_from_str (z_to_string z) = Some z.
Proof. exact int_from_str_z_to_string. Qed.
Print Assumptions C10_int_roundtrip.

(* "for every hasher", in time: a merklizer built WITHOUT WithHasher pins the package
   default hasher of that moment.  D i = value of the package variable defaultHasher
   while call number i runs (call 0 = MerklizeJSONLD, calls 1.. = the caller's script:
   Root, path keys, Proof + Value.MtEntry + VerifyProof, Entry, JSONLDType, NewRDFEntry,
   MkValue, all through the merklizer's own Options).  Whatever merklize.SetHasher does
   after call 0, every observation is unchanged. *)
Theorem C10_hasher_pinned :
  forall (T : tparams) (F : floats) (D D' : nat -> hasher) (ds : dataset) (ss : list step),
  D O = D' O ->
  forallb via_options ss = true ->
  run T F D None ds ss = run T F D' None ds ss.
Proof. exact pinned_script. Qed.
Print Assumptions C10_hasher_pinned.

(* and concretely at C10's observation points: under ANY later default Hd', the path
   built through mz.Options() hashes to the member key, Proof returns an existence
   proof whose Value carries the creation-time hasher Hd and hashes to the leaf value
   (= mkValueMtEntry under Hd = RDFEntry.ValueMtEntry), and the proof verifies against
   the root; mz.Hasher() = Hd, so HashValueWithHasher(mz.Hasher(), ..) is C10_agree at H = Hd *)
Theorem C10_pinned_member :
  forall (T : tparams) (F : floats) (Hd : hasher) (ds : dataset) (m : mz),
  merklize_ds T Hd F None None ds = Ok m ->
  mz_hasher m = Hd /\
  forall (Hd' : hasher) (k : Z) (e : rdf_entry), In (k, e) (mz_entries m) ->
    let p := mz_new_path Hd' m (p_parts (re_key e)) in
    path_mt_entry Hd' p = Ok k /\
    exists pr v vh,
      mz_proof T Hd' m p = Ok (pr, Some v) /\ ex pr = true /\
      v_val v = re_val e /\ v_hasher v = Some Hd /\
      value_mt_entry v = Ok vh /\
      mk_value_entry Hd (re_val e) = Ok vh /\
      entry_val_mt Hd' e = Ok vh /\
      verify_proof (tp_hl T) (tp_hm T) (mz_root T m) pr (hash_of_z k) (hash_of_z vh) = true.
Proof. exact pinned_member. Qed.
Print Assumptions C10_pinned_member.

(* The Value returned with a proof is hashed with the MERKLIZER's hasher, whatever hasher the
   caller's path carries (for every merklizer value, default hasher and path): its hasher
   field is the merklizer's, its MtEntry is mkValueMtEntry under that hasher of the value of
   the entry stored under the path's key. *)
Theorem C10_proof_value_hasher :
  forall (T : tparams) (Hd : hasher) (m : mz) (p : path) (pr : proof) (v : value),
  mz_proof T Hd m p = Ok (pr, Some v) ->
  v_hasher v = Some (mz_hasher m) /\
  value_mt_entry v = mk_value_entry (mz_hasher m) (v_val v) /\
  exists k e, path_mt_entry Hd p = Ok k /\ assoc Z.eqb k (mz_entries m) = Some e /\ v_val v = re_val e.
Proof. exact proof_value_hasher. Qed.
Print Assumptions C10_proof_value_hasher.

(* Proof depends on the path only through its key *)
Theorem C10_proof_path_hasher_independent :
  forall (T : tparams) (Hd Hd' : hasher) (m : mz) (p p' : path),
  path_mt_entry Hd p = path_mt_entry Hd' p' ->
  mz_proof T Hd m p = mz_proof T Hd' m p'.
Proof. exact proof_path_hasher_independent. Qed.
Print Assumptions C10_proof_path_hasher_independent.

(* the seeded variant (Value hashed with the path's hasher) is refuted by a concrete
   merklizer: same key, leaf 96 = 101 - 5, variant value 98 = 103 - 5 *)
Theorem C10_variant_j_refuted :
  exists pr v vj,
    mz_proof toyT hashA toyM (mkpath [PStr "a"%string] (Some hashB)) = Ok (pr, Some v) /\
    mz_proof_variant_j toyT hashA toyM (mkpath [PStr "a"%string] (Some hashB)) = Ok (pr, Some vj) /\
    value_mt_entry v = Ok 96 /\ value_mt_entry vj = Ok 98.
Proof. exact LeafPinned.variant_j_refuted. Qed.
Print Assumptions C10_variant_j_refuted.
