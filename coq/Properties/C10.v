(* Properties/C10.v — Standalone value hashing equals the merklized leaf.
   ONLY restatements closed by `exact`, each followed by Print Assumptions.
   Model: Value/Model.v (value_to_hash = convertAnyToString ; convertStringToXSDValue ;
   mkValueMtEntry) and Value/Leaf.v (to_rdf_lex = json-gold's native-value -> literal
   conversion; leaf_value = convertStringToXSDValue ; mkValueMtEntry on the literal;
   proof_value_entry = MtEntry of the Value returned by Proof).  Proofs: Value/LeafTheory.v.

   Floats are abstract (IEEE bit patterns).  The three premises about F and X are
   the assumed behaviour of strconv.ParseFloat, ld.GetCanonicalDouble ("%1.15E") and
   Go's float64 -> int64 conversion; every instance that occurs in a run is
   re-validated inside the case files (Value/LeafRun.v float_hyps_val). *)
From Coq Require Import ZArith List String.
From GSP Require Import Base.Prelude Value.Time Value.Model Value.Leaf Value.LeafTheory.
Import ListNotations.
Open Scope Z_scope.

(* For every hasher H, every literal {"@value": v, "@type": declared?} whose JSON
   value v is of the natural kind for its datatype dt (natural: any string; a
   boolean for xsd:boolean; the numbers 0 and 1 for xsd:boolean; a number for
   xsd:double; a number for the five integer types whose integral value has
   magnitude below 10^16, i.e. at most 16 significant digits):
   HashValueWithHasher(H, dt, RawValue) = the leaf computed from the RDF literal
   (equal values, or the same failure on both sides). *)
Theorem C10_agree :
  forall (F : floats) (X : floats_ext),
  (forall b c, f_canon F b = Some c ->
               exists b', f_parse F c = Some (Some b') /\ f_canon F b' = Some c) ->
  (forall b z, f_int64 X b = Some (Some z) -> Z.abs z < 10 ^ 16 ->
               exists c, f_canon F b = Some c /\ int_from_str c = Some z) ->
  (f_int64 X bits_zero = Some (Some 0) /\ f_canon F bits_zero = Some "0.0E0"%string /\
   f_int64 X bits_one = Some (Some 1) /\ f_canon F bits_one = Some "1.0E0"%string) ->
  forall (H : hasher) (declared : option string) (v : jval) (lex dt : string),
  to_rdf_lex F X declared v = Ok (lex, dt) ->
  match v with
  | JStr _ => True
  | JBool _ => classify dt = DBool
  | JNum b =>
    match classify dt with
    | DBool => b = bits_zero \/ b = bits_one
    | DInt _ => forall z, f_int64 X b = Some (Some z) -> Z.abs z < 10 ^ 16
    | DDouble => True
    | _ => False
    end
  | JOther => False
  end ->
  value_to_hash H F dt (raw v) = leaf_value H F dt lex.
Proof. exact agree. Qed.
Print Assumptions C10_agree.

(* The Go value stored for a literal has the kind implied by the datatype
   (boolean -> bool, the five integer types -> *big.Int, dateTime -> time.Time,
   double and every other datatype -> string), and the Value returned with a
   proof hashes to the leaf, for every hasher. *)
Theorem C10_kind :
  forall (H : hasher) (F : floats) (dt lex : string) (x : xval),
  leaf_entry F dt lex (h_prime H) = Ok x ->
  kind_of x = kind_implied (classify dt) /\
  proof_value_entry H x = leaf_value H F dt lex.
Proof. exact kind_and_proof_value. Qed.
Print Assumptions C10_kind.

(* fmt "%d" followed by big.Rat.SetString / IsInt / Num is the identity: the step
   that makes native JSON integers agree on both paths *)
Theorem C10_int_roundtrip : forall z : Z, int_from_str (z_to_string z) = Some z.
Proof. exact int_from_str_z_to_string. Qed.
Print Assumptions C10_int_roundtrip.
