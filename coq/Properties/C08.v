(* Properties/C08.v — Sparse-Merkle-tree issuance proof verification is sound and complete.
   ONLY restatements closed by `exact`, each followed by Print Assumptions.
   Model: Verify/SMTProof.v (+ Issuer.v, Status.v, Top78.v, SMT/Model.v); proofs:
   Verify/Theory78.v, Verify/Complete78.v (which use SMT/Theory.v and SMT/Sound.v).

   `verify_smt` is verifyIden3SparseMerkleTreeProof; every external function is universally
   quantified and carries NO hypothesis (see Properties/C07.v for the legend and for the
   vocabulary claim_hashes / mtp_carries / state_commits / published_or_genesis). *)
From Coq Require Import ZArith List String Bool.
From GSP Require Import Base.Prelude SMT.Model SMT.Theory SMT.Sound Verify.Status Verify.Issuer
  Verify.SMTProof Verify.Top78 Verify.Theory78 Verify.Complete78.
Import ListNotations.
Open Scope Z_scope.

(* Verification succeeds ONLY IF every clause of the property holds. *)
Theorem C08_sound :
  forall (poseidon : list Z -> Z) (q : Z) (D : Type)
         (resolve_did : D -> Z -> did_answer) (id_from_did : D -> Z -> option Z)
         (genesis_check : Z -> Z -> option bool) (b : smt_bundle D),
  verify_smt poseidon q D resolve_did id_from_did genesis_check b = Ok tt ->
  exists d st hi hv mtp ctr,
    (* the state is reported published by the DID resolver, or is the genesis state of the DID *)
    s_did b = Some d /\ published_or_genesis D resolve_did id_from_did genesis_check d st /\
    (* the Merkle proof is an EXISTENCE proof carrying the claim's (hi, hv) to claimsTreeRoot *)
    claim_hashes poseidon q (s_claim b) hi hv /\
    s_mtp b = Some mtp /\ r_ex mtp = true /\ mtp_carries poseidon q mtp hi hv ctr /\
    st_ctr (s_state b) = HVal ctr /\
    (* that root, with the revocation and roots roots, hashes to the issuer state named in the proof *)
    state_commits poseidon q (s_state b) st.
Proof. exact smt_sound. Qed.
Print Assumptions C08_sound.

(* ... and IF they hold it succeeds (exact decision, including absent members). *)
Theorem C08_decision :
  forall (poseidon : list Z -> Z) (q : Z) (D : Type)
         (resolve_did : D -> Z -> did_answer) (id_from_did : D -> Z -> option Z)
         (genesis_check : Z -> Z -> option bool) (b : smt_bundle D),
  verify_smt poseidon q D resolve_did id_from_did genesis_check b = Ok tt <->
  exists d st hi hv mtp ctr,
    s_did b = Some d /\ published_or_genesis D resolve_did id_from_did genesis_check d st /\
    claim_hashes poseidon q (s_claim b) hi hv /\
    s_mtp b = Some mtp /\ r_ex mtp = true /\ mtp_carries poseidon q mtp hi hv ctr /\
    st_ctr (s_state b) = HVal ctr /\
    state_commits poseidon q (s_state b) st.
Proof. exact smt_decision. Qed.
Print Assumptions C08_decision.

(* Every claim actually inserted in a synthetic issuer's claims tree verifies with the proof
   generated from that tree (`gen` = GenerateProof; SMT completeness).  Hypotheses: Poseidon's
   results are field elements (range, not injectivity), the tree is reachable by Add (`wf`) with
   at most 241 levels and holds field elements, the DID resolver is honest. *)
Theorem C08_complete :
  forall (poseidon : list Z -> Z) (q : Z) (maxlev : nat) (D SK : Type)
         (resolve_did : D -> Z -> did_answer) (id_from_did : D -> Z -> option Z)
         (genesis_check : Z -> Z -> option bool),
  0 < q -> q <= 2 ^ 256 -> (forall l, 0 <= poseidon l < q) -> (1 <= maxlev <= 241)%nat ->
  forall (omit : bool) (s : issuer_state SK) (c : claim) (did : D),
    wf maxlev (is_ct SK s) -> tree_in_field q (is_ct SK s) -> 0 <= is_ror SK s < q ->
    claim_in_field q c ->
    In (hi_of poseidon c, hv_of poseidon c) (leaves (is_ct SK s)) ->
    published_or_genesis D resolve_did id_from_did genesis_check did (state_of poseidon SK s) ->
    verify_smt poseidon q D resolve_did id_from_did genesis_check
      (issue_smt poseidon D SK omit s c did) = Ok tt.
Proof. exact smt_complete. Qed.
Print Assumptions C08_complete.

(* A claim that was never inserted cannot be verified against an honest issuer's state: for a
   well-formed claims tree ct not containing the claim's (hi, hv), NO bundle naming the state
   Poseidon[root ct, rt, ror] verifies - whatever Merkle proof, roots, DID and resolver answers it
   comes with - unless a hash collision is exhibited (SMT soundness; no hypothesis on the hash). *)
Theorem C08_never_issued :
  forall (poseidon : list Z -> Z) (q : Z) (maxlev : nat) (D : Type)
         (resolve_did : D -> Z -> did_answer) (id_from_did : D -> Z -> option Z)
         (genesis_check : Z -> Z -> option bool)
         (ct : tree) (rt ror : Z) (b : smt_bundle D) (hi hv : Z),
  wf maxlev ct ->
  claim_hashes poseidon q (s_claim b) hi hv ->
  ~ In (hash_of_z hi, hash_of_z hv) (leaves ct) ->
  st_value (s_state b) = HVal (poseidon [root (Status.hl poseidon) (Status.hm poseidon) ct; rt; ror]) ->
  verify_smt poseidon q D resolve_did id_from_did genesis_check b = Ok tt ->
  Collision (Status.hl poseidon) (Status.hm poseidon) \/
  (exists a b c a' b' c', (a, b, c) <> (a', b', c') /\ poseidon [a; b; c] = poseidon [a'; b'; c']).
Proof. exact smt_never_issued. Qed.
Print Assumptions C08_never_issued.

(* No panic, no divergence, on any bundle (absent members, malformed proofs included). *)
Theorem C08_total :
  forall (poseidon : list Z -> Z) (q : Z) (D : Type)
         (resolve_did : D -> Z -> did_answer) (id_from_did : D -> Z -> option Z)
         (genesis_check : Z -> Z -> option bool) (b : smt_bundle D),
  (forall w, verify_smt poseidon q D resolve_did id_from_did genesis_check b <> Panic w) /\
  verify_smt poseidon q D resolve_did id_from_did genesis_check b <> Diverge.
Proof. exact smt_total. Qed.
Print Assumptions C08_total.

Theorem C08_verify_proof :
  forall (B : Type) (check : B -> res unit) (i : vp_input B),
  verify_proof_top check i = Ok tt <->
  vp_found i = true /\ vp_claim i = true /\ vp_binding i = true /\
  exists b, vp_typed i = Some b /\ check b = Ok tt.
Proof. exact top_ok_iff. Qed.
Print Assumptions C08_verify_proof.

(* On the credential's whole proof list: exactly the FIRST proof of the requested type is the one
   whose core claim is bound to the credential and which is verified; later proofs (of any type)
   and earlier proofs of other types play no role.  An entry = (its type is the requested one?,
   what VerifyProof's steps find for it). *)
Theorem C08_verify_proof_list :
  forall (B : Type) (check : B -> res unit) (ps : list (bool * vp_input B)),
  verify_proof_list check ps = Ok tt <->
  exists pre i post,
    ps = pre ++ (true, i) :: post /\ Forall (fun p => fst p = false) pre /\
    vp_claim i = true /\ vp_binding i = true /\
    exists b, vp_typed i = Some b /\ check b = Ok tt.
Proof. exact top_list_ok_iff. Qed.
Print Assumptions C08_verify_proof_list.
