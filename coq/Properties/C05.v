(* Properties/C05.v — Core claim faithfully and purely encodes credential and
   options.  ONLY restatements closed by `exact`, each followed by
   Print Assumptions.  Model: Claim/Model.v; proofs: Claim/Theory.v.

   Reading guide.  [oracles] = Keccak-256 (digest as a big-endian number) and
   DID -> 31-byte identifier (little-endian number), arbitrary functions.
   [cred] is the credential as ToCoreClaim reads it; [tcc_prefix c] is the part
   of the call that only reads the credential (merklization, credential type,
   serialization attribute, the four data slots) and returns
   (merklizer view, type IRI, data slots, non-merklized?).  [eff_opts caller] is
   the caller's options object, or the defaults for a nil pointer.
   [to_core_claim O c caller] returns (result, caller's object as left behind). *)
From Coq Require Import ZArith List String Permutation.
From GSP Require Import Base.Prelude Claim.Model Claim.Theory Merklizer.SliceModel Claim.OptsSlice.
Import ListNotations.
Open Scope Z_scope.

(* the 8 raw slot integers of every claim that is produced *)
Theorem C05_layout :
  forall O c caller mz ty sl nm cl,
  0 <= o_nonce (eff_opts caller) < 2 ^ 64 -> 0 <= o_version (eff_opts caller) < 2 ^ 32 ->
  tcc_prefix c = Ok (mz, ty, sl, nm) ->
  fst (to_core_claim O c caller) = Ok cl ->
  exists sb rt,
    (* where the subject identifier goes: nowhere without a subject id; index for "" / "index"; value for "value" *)
    subject_spec O c (eff_opts caller) = Ok sb /\
    (* where the root goes: nowhere for a serialized schema; index for "" / "index"; value for "value" *)
    root_spec (if nm then "" else if String.eqb (o_root_pos (eff_opts caller)) "" then "index"
               else o_root_pos (eff_opts caller)) = Ok rt /\
    ints cl =
    [ schema_hash O ty
        + 2 ^ 128 * (  match sb with SNone => 0 | SIndex _ => 2 | SValue _ => 3 end
                     + 8 * match c_expiration c with Some _ => 1 | None => 0 end
                     + 16 * (if o_updatable (eff_opts caller) then 1 else 0)
                     + 32 * match rt with RNone => 0 | RIndex => 1 | RValue => 2 end)
        + 2 ^ 160 * o_version (eff_opts caller);
      match sb with SIndex id => id mod 2 ^ 248 | _ => 0 end;
      match rt with RIndex => m_root mz | RValue => 0 | RNone => s_index_a sl end;
      s_index_b sl;
      o_nonce (eff_opts caller)
        + 2 ^ 64 * match c_expiration c with Some e => e mod 2 ^ 64 | None => 0 end;
      match sb with SValue id => id mod 2 ^ 248 | _ => 0 end;
      match rt with RValue => m_root mz | RIndex => 0 | RNone => s_value_a sl end;
      s_value_b sl ].
Proof. exact layout_ok. Qed.
Print Assumptions C05_layout.

(* the data slots of a serialized schema are the named fields' encodings; a
   merklized schema (no attribute) has empty data slots *)
Theorem C05_slots :
  forall c mz tp sl nm,
  parse_slots c mz tp = Ok (sl, nm) ->
  exists a, get_serialization_attr c tp = Ok a /\
    (a = ""%string -> nm = false /\ sl = slots_zero) /\
    (a <> ""%string -> nm = true /\
       exists sp, parse_serialization_attr a = Ok sp /\
         let enc p := if String.eqb p "" then Ok 0 else v <- m_field mz p ;; Ok (v mod 2 ^ 256) in
         (paths_is_empty sp = true -> sl = slots_zero) /\
         (paths_is_empty sp = false ->
            enc (p_index_a sp) = Ok (s_index_a sl) /\ enc (p_index_b sp) = Ok (s_index_b sl) /\
            enc (p_value_a sp) = Ok (s_value_a sl) /\ enc (p_value_b sp) = Ok (s_value_b sl))).
Proof. exact parse_slots_spec. Qed.
Print Assumptions C05_slots.

(* schema hash = the last 16 bytes of the 32-byte Keccak-256 digest of the type IRI,
   as they stand in the slot (least significant byte first) *)
Theorem C05_schema_hash :
  forall O ty,
  schema_hash O ty = le_int (skipn 16 (be_bytes 32 (keccak O ty))) /\
  0 <= schema_hash O ty < 2 ^ 128.
Proof. exact (fun O ty => conj (schema_hash_last16 O ty) (schema_hash_range O ty)). Qed.
Print Assumptions C05_schema_hash.

(* the error cases, exactly *)
Theorem C05_errors :
  forall O c caller,
  is_ok (fst (to_core_claim O c caller)) = true <->
  exists mz ty sl nm,
    tcc_prefix c = Ok (mz, ty, sl, nm) /\
    (nm = true -> o_root_pos (eff_opts caller) = ""%string) /\       (* a root for a serialized schema is an error *)
    slots_in_field sl = true /\                                       (* every data slot below the field modulus *)
    (exists sb, subject_spec O c (eff_opts caller) = Ok sb) /\        (* usable DID and known position, if there is a subject id *)
    (exists rt, root_spec (root_pos_eff nm (eff_opts caller)) = Ok rt /\   (* known root position *)
                (rt <> RNone -> in_field (m_root mz) = true)).
Proof. exact errors_exact. Qed.
Print Assumptions C05_errors.

Theorem C05_prefix_error :
  forall O c caller t, tcc_prefix c = Err t -> fst (to_core_claim O c caller) = Err t.
Proof. exact prefix_error. Qed.
Print Assumptions C05_prefix_error.

(* the caller's options object is left exactly as it was (the credential is a
   value the model never rebuilds: ToCoreClaim has no assignment to it) *)
Theorem C05_pure :
  forall O c caller, snd (to_core_claim O c caller) = caller.
Proof. exact pure. Qed.
Print Assumptions C05_pure.

(* every sequence of calls over shared option objects and credentials: the
   objects end as they began and the i-th result is the result of that call
   made on the original objects *)
Theorem C05_history :
  forall O creds ks st,
  snd (run_history O creds st ks) = st /\
  fst (run_history O creds st ks) = map (fun k => fst (run_call O creds st k)) ks.
Proof. exact history_independent. Qed.
Print Assumptions C05_history.

(* the result does not depend on the order in which the term map is iterated *)
Theorem C05_deterministic :
  forall O c ts ts' caller,
  NoDup (map t_name ts) -> Permutation ts ts' ->
  to_core_claim O (with_ctx c (Some ts)) caller = to_core_claim O (with_ctx c (Some ts')) caller.
Proof. exact deterministic. Qed.
Print Assumptions C05_deterministic.

(* expiration = Unix seconds of the instant vc.Expiration denotes: the fraction of
   a second ([gt_nanos]) never reaches the claim (it is dropped, not rounded), and
   the expiration flag is set *)
Theorem C05_expiration_seconds :
  forall O mz subj ctx caller t t',
  gt_sec t = gt_sec t' ->
  to_core_claim O (cred_at mz subj (Some t) ctx) caller =
  to_core_claim O (cred_at mz subj (Some t') ctx) caller.
Proof. exact expiration_seconds. Qed.
Print Assumptions C05_expiration_seconds.

Theorem C05_expiration_layout :
  forall O mz subj ctx caller t cl,
  0 <= o_nonce (eff_opts caller) < 2 ^ 64 -> 0 <= o_version (eff_opts caller) < 2 ^ 32 ->
  fst (to_core_claim O (cred_at mz subj (Some t) ctx) caller) = Ok cl ->
  v0 cl = o_nonce (eff_opts caller) + 2 ^ 64 * (gt_sec t mod 2 ^ 64) /\
  get_field (i0 cl) 131 1 = 1.
Proof. exact expiration_layout. Qed.
Print Assumptions C05_expiration_layout.

(* options purity at the level of Go slices (heap of backing arrays, slice headers): for every
   heap, every history of calls with any of the caller's MerklizerOpts slices - slices that may share
   one backing array with spare capacity - the heap after the history is the heap before it, every
   slice reads as before up to its CAPACITY, and each call handed Merklize exactly the view of its
   slice.  (The seeded `append(opts.MerklizerOpts, x)` is refuted: OptsSlice.append_variant_refuted;
   it keeps the promise only for slices without spare capacity: OptsSlice.append_variant_full_slice.) *)
Theorem C05_options_backing_array_untouched :
  forall (A : Type) (dflt : A) (slack : nat -> nat) (calls : list slice) (h : heap A),
  fst (run_mz A dflt slack (VRepo A) h calls) = h /\
  snd (run_mz A dflt slack (VRepo A) h calls) = map (view A h) calls /\
  forall t, view A (fst (run_mz A dflt slack (VRepo A) h calls)) (full t) = view A h (full t).
Proof. exact backing_array_untouched. Qed.
Print Assumptions C05_options_backing_array_untouched.
