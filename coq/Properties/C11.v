(* Properties/C11.v — schema-side, document-side and stored paths agree.
   ONLY restatements closed by `exact`, each followed by Print Assumptions.
   Models: JsonLD/Model.v (JSON-LD subset: contexts, `facts`, `doc_field`),
   JsonLD/Resolvers.v (faithful models of merklize.go's resolvers); proofs: JsonLD/Theory.v.
   PARTIAL BY CONSTRUCTION: the statements are about the subset model of JSON-LD, which is
   tied to json-gold / MerklizeJSONLD only differentially (JsonLD/Run.v, every run). *)
From Coq Require Import ZArith List String.
From GSP Require Import Base.Prelude Value.Model RDF.Model Merklizer.Model JsonLD.Model JsonLD.Resolvers JsonLD.Theory
  JsonLD.Sim JsonLD.KeyModel JsonLD.KeyTheory.
Import ListNotations.
Open Scope string_scope.

(* The path the faithful model of Merklizer.ResolveDocPath / NewPathFromDocument returns
   for the dotted path pi is the path under which the document states the field (doc_field:
   the document semantics, which includes that every numeric segment selects a member), and
   that fact is one of the facts of the document (the model of what is merklized; indices are
   document positions, the stored numbering is the canonical one — compared differentially).
   Hypothesis ok_along (JsonLD/Sim.v), for every node object on the path: every key of the node,
   its @type values, the next path term and every term its contexts refer to without defining
   it have the same definition in the context the node's type-scoped ancestors are reverted to
   ("no type-scoped (re)definition visible in the nested node": boundary of D8, known finding).
   Without it the statement is refuted below.  (Since fix 7a3eec3 no condition on the members
   of an indexed array is needed: the resolver continues in the selected member.) *)
Theorem C11_doc_vs_store :
  forall ld m pi p p' dt v fs,
  path_from_document ld (JObj m) pi = Ok p ->
  doc_field ld (JObj m) pi = Ok (p', dt, v) ->
  ok_along ld pi (fun _ => True) empty_ctx empty_ctx None m ->
  facts ld (JObj m) = Ok fs ->
  p = p' /\ exists f, In f fs /\ f_path f = p /\ f_dt f = dt /\ f_val f = v.
Proof. exact doc_vs_store. Qed.
Print Assumptions C11_doc_vs_store.

(* ---- tree keys (Path.MtEntry): Path record and hash_path of Merklizer/Model.v, resolver results
   as Path values in JsonLD/KeyModel.v ---- *)

(* every path a resolver returns carries the hasher of the Options it was called on *)
Theorem C11_resolver_hasher :
  forall Hd o ld doc cj pi ty field p,
  (path_from_document_p Hd o ld doc pi = Ok p \/
   path_from_context_p Hd o ld cj pi = Ok p \/
   field_path_from_context_p Hd o ld cj ty field = Ok p) ->
  p_hasher p = Some (get_hasher Hd o).
Proof. exact resolver_paths_carry_options_hasher. Qed.
Print Assumptions C11_resolver_hasher.

(* the key the API reports is a function of (parts, hasher) only ... *)
Theorem C11_key_determined :
  forall Hd p q,
  p_parts p = p_parts q ->
  hasher_or Hd (p_hasher p) = hasher_or Hd (p_hasher q) ->
  path_mt_entry Hd p = path_mt_entry Hd q.
Proof. exact key_determined. Qed.
Print Assumptions C11_key_determined.

(* ... and of the hasher only through HashBytes on the string parts and Hash *)
Theorem C11_key_determined_by_primitives :
  forall H1 H2 ps,
  (forall s, In (PStr s) ps -> h_bytes H1 s = h_bytes H2 s) ->
  (forall ks, h_hash H1 ks = h_hash H2 ks) ->
  hash_path H1 ps = hash_path H2 ps.
Proof. exact key_determined_by_primitives. Qed.
Print Assumptions C11_key_determined_by_primitives.

(* schema-side path (type prefix restored with Prepend) and document-side path: equal parts,
   same Options => equal tree keys; likewise the key of the stored entry *)
Theorem C11_keys_agree :
  forall Hd o ld cj doc ty field pi pre ps pd,
  field_path_from_context_p Hd o ld cj ty field = Ok ps ->
  path_from_document_p Hd o ld doc pi = Ok pd ->
  (pre ++ p_parts ps)%list = p_parts pd ->
  path_mt_entry Hd (path_prepend pre ps) = path_mt_entry Hd pd.
Proof. exact schema_and_document_keys_agree. Qed.
Print Assumptions C11_keys_agree.

Theorem C11_stored_key_agrees :
  forall Hd o ld doc pi pd pe,
  path_from_document_p Hd o ld doc pi = Ok pd ->
  entry_path (get_hasher Hd o) ld doc pi = Ok pe ->
  p_parts pd = p_parts pe ->
  path_mt_entry Hd pd = path_mt_entry Hd pe.
Proof. exact document_and_stored_keys_agree. Qed.
Print Assumptions C11_stored_key_agrees.

(* equal parts under different hashers: different keys (concrete pair) — why a resolver must
   return the options' hasher *)
Theorem C11_key_depends_on_hasher :
  exists Hd p q, p_parts p = p_parts q /\ path_mt_entry Hd p <> path_mt_entry Hd q.
Proof. exact key_depends_on_hasher. Qed.
Print Assumptions C11_key_depends_on_hasher.

(* the field a dotted path denotes is always one of the document's facts (no hypothesis) *)
Theorem C11_field_is_fact :
  forall ld doc pi p dt v fs,
  doc_field ld doc pi = Ok (p, dt, v) ->
  facts ld doc = Ok fs ->
  exists f, In f fs /\ f_path f = p /\ f_dt f = dt /\ f_val f = v.
Proof. exact field_is_fact. Qed.
Print Assumptions C11_field_is_fact.

(* declared datatype = recorded datatype *)
Theorem C11_datatype_recorded :
  forall G d dp p v t fs,
  td_type d = Some t -> is_datatype t = true ->
  scalar_fact G (Some d) dp p v = Ok fs ->
  exists f, fs = [f] /\ f_dt f = t /\ f_val f = v /\ f_path f = p.
Proof. exact declared_datatype_recorded. Qed.
Print Assumptions C11_datatype_recorded.

(* ... and the datatype TypeFromContext reports for (type, field) is the datatype of the fact
   the document states for that field of a node of that type (root node, scalar field) *)
Theorem C11_datatype :
  forall ld C m k ty field v G dt fs p fdt fv,
  jget "@context" m = Some C ->
  cparse ld empty_ctx C = Ok G ->
  type_key G m = Some k -> jget k m = Some (JStr ty) ->
  type_from_context ld (JObj [("@context", C)]) [ty; field] = Ok dt ->
  is_datatype dt = true -> dt <> "" ->
  (forall G' d, term_def G' field = Some d -> td_ctx d = None) ->
  jget field m = Some v -> is_scalar v = true ->
  doc_field ld (JObj m) [field] = Ok (p, fdt, fv) ->
  facts ld (JObj m) = Ok fs ->
  fdt = dt /\ exists x, In x fs /\ f_path x = p /\ f_dt x = dt /\ f_val x = fv.
Proof. exact datatype_root_field. Qed.
Print Assumptions C11_datatype.

(* field path resolved from the context alone (type + field path) = the document-side
   path (the type prefix stripped), whenever the nested nodes below the root contribute no
   term definitions of their own (`transparent`) *)
Theorem C11_ctx_vs_doc :
  forall ld C m k ty dty pi p G,
  jget "@context" m = Some C ->
  cparse ld empty_ctx C = Ok G ->
  type_key G m = Some k -> jget k m = Some (JStr ty) ->
  term_def G ty = Some dty -> is_num ty = false -> ty <> "" ->
  pi <> [] -> pi <> [""] -> (forall t, hd_error pi = Some t -> is_num t = false) ->
  (forall G2, match td_ctx dty with Some s => cparse ld G s | None => Ok G end = Ok G2 ->
     forall t rest, pi = t :: rest -> forall d G3, term_def G2 t = Some d ->
       match td_ctx d with Some s => cparse ld G2 s | None => Ok G2 end = Ok G3 ->
       transparent ld rest G3 (match jget t m with Some v => v | None => JNull end) true) ->
  path_from_document ld (JObj m) pi = Ok p ->
  field_path_from_context ld (JObj [("@context", C)]) [ty] pi = Ok p.
Proof. exact ctx_vs_doc. Qed.
Print Assumptions C11_ctx_vs_doc.

(* the type id resolved from the context is the subject type the document states *)
Theorem C11_type_id :
  forall ld C m k ty id G3 G4 fs,
  jget "@context" m = Some C ->
  enter_node ld empty_ctx None m = Ok (G3, G4) ->
  In (k, JStr ty) m ->
  expand_doc G4 true k = "@type" ->
  is_keyword ty = false -> keyword_like ty = false ->
  type_id_from_context ld (JObj [("@context", C)]) ty = Ok id ->
  facts ld (JObj m) = Ok fs ->
  In {| f_doc := [k]; f_path := [PStr rdf_type]; f_dt := ""; f_val := JStr id |} fs.
Proof. exact type_id_is_stored_type. Qed.
Print Assumptions C11_type_id.

(* errors: every segment is resolved or the resolver fails *)
Theorem C11_errors_doc_segments :
  forall ld pi G doc acc p, pfd ld pi G doc acc = Ok p -> Forall2 seg_part pi p.
Proof. exact pfd_segments. Qed.
Print Assumptions C11_errors_doc_segments.

Theorem C11_errors_ctx_segments :
  forall ld pi G p, pfc ld pi G = Ok p -> Forall2 seg_part pi p.
Proof. exact pfc_segments. Qed.
Print Assumptions C11_errors_ctx_segments.

Theorem C11_errors_unknown_term_doc :
  forall ld pre term rest G doc acc p,
  is_num term = false -> (forall G', term_def G' term = None) ->
  pfd ld (pre ++ term :: rest) G doc acc <> Ok p.
Proof. exact pfd_unknown_term. Qed.
Print Assumptions C11_errors_unknown_term_doc.

Theorem C11_errors_unknown_term_ctx :
  forall ld pre term rest G p,
  is_num term = false -> (forall G', term_def G' term = None) ->
  pfc ld (pre ++ term :: rest) G <> Ok p.
Proof. exact pfc_unknown_term. Qed.
Print Assumptions C11_errors_unknown_term_ctx.

Theorem C11_errors_failing_context :
  forall ld C t ty pi,
  cparse ld empty_ctx C = Err t ->
  path_from_context ld (JObj [("@context", C)]) pi = Err t /\
  type_from_context ld (JObj [("@context", C)]) pi = Err t /\
  type_id_from_context ld (JObj [("@context", C)]) ty = Err t.
Proof. exact failing_context_errors. Qed.
Print Assumptions C11_errors_failing_context.

(* fix 4b7fa17 (D9) *)
Theorem C11_errors_failing_scoped_context :
  forall ld term rest G d s t,
  term_def G term = Some d -> td_ctx d = Some s -> cparse ld G s = Err t ->
  tfc ld (term :: rest) G = Err t.
Proof. exact tfc_scoped_failure. Qed.
Print Assumptions C11_errors_failing_scoped_context.

(* refuted on the current tree: D8 (type-scoped redefinition leaks into a nested node) *)
Theorem C11_doc_vs_store_refuted_type_scoped :
  exists ld doc pi p,
    path_from_document ld doc pi = Ok p /\
    (exists p' dt v, doc_field ld doc pi = Ok (p', dt, v) /\ p' <> p) /\
    (exists fs, facts ld doc = Ok fs /\ forall f, In f fs -> f_path f <> p).
Proof. exact doc_vs_store_refuted_type_scoped. Qed.
Print Assumptions C11_doc_vs_store_refuted_type_scoped.

(* D14, array part fixed by 7a3eec3: a numeric segment on an array selects one of its members,
   and the walk continues in that member ... *)
Theorem C11_numeric_segment :
  forall ld i rest G l acc p,
  is_num i = true ->
  pfd ld (i :: rest) G (JArr l) acc = Ok p ->
  exists x more, nth_error l (Z.to_nat (num_val i)) = Some x /\
                 pfd ld rest G x false = Ok more /\ p = PInt (num_val i) :: more.
Proof. exact numeric_segment_selects_member. Qed.
Print Assumptions C11_numeric_segment.

(* ... and an index that is out of range is an error *)
Theorem C11_numeric_segment_errors :
  forall ld i rest G l acc,
  is_num i = true ->
  nth_error l (Z.to_nat (num_val i)) = None ->
  exists t, pfd ld (i :: rest) G (JArr l) acc = Err t.
Proof. exact numeric_segment_errors. Qed.
Print Assumptions C11_numeric_segment_errors.

(* still refuted (D14 non-array part, known finding, pinned by the repository's
   TestIPFSContext): a numeric segment on a value that is not an array is copied unchecked *)
Theorem C11_numeric_segment_on_non_array_refuted :
  exists ld doc pi p,
    path_from_document ld doc pi = Ok p /\
    (exists t, doc_field ld doc pi = Err t) /\
    (exists fs, facts ld doc = Ok fs /\ forall f, In f fs -> f_path f <> p).
Proof. exact numeric_segment_on_non_array_refuted. Qed.
Print Assumptions C11_numeric_segment_on_non_array_refuted.

(* still refuted (D31, known finding): a multi-member array addressed without its index *)
Theorem C11_missing_index_refuted :
  exists ld doc pi p,
    path_from_document ld doc pi = Ok p /\
    (exists t, doc_field ld doc pi = Err t) /\
    (exists fs, facts ld doc = Ok fs /\ forall f, In f fs -> f_path f <> p).
Proof. exact missing_index_refuted. Qed.
Print Assumptions C11_missing_index_refuted.

(* still refuted: index 0 on a one-member array of the source document *)
Theorem C11_single_member_index_refuted :
  exists ld doc pi p,
    path_from_document ld doc pi = Ok p /\
    (exists t, doc_field ld doc pi = Err t) /\
    (exists fs, facts ld doc = Ok fs /\ forall f, In f fs -> f_path f <> p).
Proof. exact single_member_index_refuted. Qed.
Print Assumptions C11_single_member_index_refuted.
