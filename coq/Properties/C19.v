(* Properties/C19.v — Document loader serves fresh documents and routes by scheme.
   ONLY restatements closed by `exact`, each followed by Print Assumptions.
   Model: Loader/Model.v; proofs: Loader/Theory.v.

   Reading aid.  `run fuel cfg ops` is the loader's state after the history `ops`
   (Serve u r | Load u | Tick dt) started from the empty state; `cfg` fixes the
   cache mode (default / off / memory engine with embedded documents / third
   party engine, possibly failing), the IPFS client and gateway, and two
   recorded primitives: `url_ok` (http.NewRequest succeeds) and `cc`
   (the answers of pquerna/cachecontrol for a header set: may it be stored,
   for how many seconds is it fresh, does it carry no-cache; `storable cfg p`
   is the loader's shouldCache = cc_store && not cc_nocache).  EVERY theorem
   holds for every `cfg`, i.e. whatever those primitives answer, for every
   history `ops` and every `fuel` (the bound on nested rel=alternate links).
   `elapsed pre` is the time at which the operation after the prefix `pre`
   runs, `served pre k` is what the origin answers at key k at that moment
   (both are functions of the history alone).  `RResp 200 (BJson d) p None` is a
   200 response whose body is the JSON document (version) d with cache headers
   p and no rel=alternate Link header.  The request log `reqlog` is part of the
   state, so `st' = run fuel cfg ops` says in particular that no request was issued.

   The property's histories have no Link header: the freshness theorems carry the
   explicit hypothesis that no response of the history has a rel=alternate link
   (spelled out below; it is `link_free_ops ops` in Loader/Theory.v), the
   state-level ones that no response of the state has one.  With such links two of
   them fail: C19_link_reuse_refuted, C19_link_diverges_refuted (observations O-L2, O-L1). *)
From Coq Require Import ZArith NArith List String Bool.
From GSP Require Import Base.Prelude Loader.Model Loader.Theory Loader.RoutingKeys.
Import ListNotations.
Open Scope string_scope.
Open Scope list_scope.
Open Scope Z_scope.

(* Every cache entry was obtained by an earlier load from a 200 response with a JSON body whose
   headers the loader accepts for storing; its expiry is the time of that load plus the lifetime the
   library computed (the zero time if none).  Embedded URLs never enter the cache. *)
Theorem C19_inv :
  forall fuel cfg ops k d e,
  (forall u code b p t, ~ In (Serve u (RResp code b p (Some t))) ops) ->
  In (k, (d, e)) (cache (run fuel cfg ops)) ->
  assoc String.eqb k (embedded cfg) = None /\
  exists pre u post p,
    ops = pre ++ Load u :: post /\ route_of cfg u = ToHttp k /\
    served pre k = RResp 200 (BJson d) p None /\ storable cfg p = true /\
    e = expiry_of (cc_lifetime cfg p) (elapsed pre).
Proof. exact cache_from_history. Qed.
Print Assumptions C19_inv.

(* Embedded documents: never overwritten (Set on an embedded key changes nothing), and returned
   by every load in EVERY state (whatever the origin serves) without any request and without any
   other change. *)
Theorem C19_embedded_not_overwritten :
  forall cfg st k d d' e,
  assoc String.eqb k (embedded cfg) = Some d -> engine_set cfg st k d' e = Some st.
Proof. exact embedded_not_overwritten. Qed.
Print Assumptions C19_embedded_not_overwritten.

Theorem C19_embedded_served :
  forall fuel cfg st u k d,
  route_of cfg u = ToHttp k -> assoc String.eqb k (embedded cfg) = Some d ->
  load fuel cfg st u = (st, Ok d).
Proof. exact embedded_served. Qed.
Print Assumptions C19_embedded_served.

(* Every load after every history returns an error, or
   (1) the document the origin serves right now, fetched by exactly one request to the client the
       URL routes to, or
   (2) a document an earlier load obtained at the same key from a storable 200 response whose
       lifetime l has not run out (now < then + l) — and nothing changes, no request, or
   (3) the embedded document — and nothing changes, no request.
   Panic/Diverge are not among the outcomes. *)
Theorem C19_fresh :
  forall fuel cfg ops u st' out,
  (forall u code b p t, ~ In (Serve u (RResp code b p (Some t))) ops) ->
  load fuel cfg (run fuel cfg ops) u = (st', out) ->
  (exists t, out = Err t) \/
  exists d, out = Ok d /\
   ((exists c k p,
       chan_key cfg u = Some (c, k) /\ served ops k = RResp 200 (BJson d) p None /\
       reqlog st' = (c, k, elapsed ops, RResp 200 (BJson d) p None) :: reqlog (run fuel cfg ops))
    \/
    (exists k pre u0 post p l,
       route_of cfg u = ToHttp k /\ assoc String.eqb k (embedded cfg) = None /\
       ops = pre ++ Load u0 :: post /\ route_of cfg u0 = ToHttp k /\
       served pre k = RResp 200 (BJson d) p None /\ storable cfg p = true /\
       cc_lifetime cfg p = Some l /\ elapsed ops < elapsed pre + l /\
       In (k, (d, TAt (elapsed pre + l))) (cache (run fuel cfg ops)) /\
       st' = run fuel cfg ops)
    \/
    (exists k, route_of cfg u = ToHttp k /\ assoc String.eqb k (embedded cfg) = Some d /\
               st' = run fuel cfg ops)).
Proof. exact load_fresh. Qed.
Print Assumptions C19_fresh.

(* Responses that may not be stored, carry no lifetime, or whose lifetime is over are never reused:
   if that is the case for every response with document d an earlier load obtained at k, a load
   that returns d has fetched it with a request just now and d is what the origin serves now. *)
Theorem C19_no_reuse :
  forall fuel cfg ops u k d st',
  (forall u code b p t, ~ In (Serve u (RResp code b p (Some t))) ops) ->
  load fuel cfg (run fuel cfg ops) u = (st', Ok d) ->
  route_of cfg u = ToHttp k ->
  assoc String.eqb k (embedded cfg) = None ->
  (forall pre u0 post p,
     ops = pre ++ Load u0 :: post -> route_of cfg u0 = ToHttp k ->
     served pre k = RResp 200 (BJson d) p None ->
     storable cfg p = false \/ cc_lifetime cfg p = None \/
     (exists l, cc_lifetime cfg p = Some l /\ elapsed pre + l <= elapsed ops)) ->
  exists p, served ops k = RResp 200 (BJson d) p None /\
            reqlog st' = (CHttp, k, elapsed ops, RResp 200 (BJson d) p None) :: reqlog (run fuel cfg ops).
Proof. exact load_no_reuse. Qed.
Print Assumptions C19_no_reuse.

(* The same in terms of header names, under the stated assumption on the dependency (the library
   refuses no-store / private, reports the no-cache directive, and gives no lifetime without
   freshness information); the recorded table is checked against this assumption on every run. *)
Theorem C19_no_reuse_headers :
  forall fuel cfg ops u k d st',
  (forall u code b p t, ~ In (Serve u (RResp code b p (Some t))) ops) ->
  ((forall p, match p with PNoStore | PPrivate | PPrivateMaxAge _ | PNoStoreMaxAge _ => True | _ => False end ->
              cc_store cfg p = false) /\
   (forall p, match p with PNoCache | PNoCacheMaxAge _ => True | _ => False end ->
              cc_nocache cfg p = true) /\
   (forall p, match p with PNone | PNoCache | PExpiresInvalid => True | _ => False end ->
              cc_lifetime cfg p = None)) ->
  load fuel cfg (run fuel cfg ops) u = (st', Ok d) ->
  route_of cfg u = ToHttp k ->
  assoc String.eqb k (embedded cfg) = None ->
  (forall pre u0 post p,
     ops = pre ++ Load u0 :: post -> route_of cfg u0 = ToHttp k ->
     served pre k = RResp 200 (BJson d) p None ->
     match p with PNoStore | PPrivate | PPrivateMaxAge _ | PNoStoreMaxAge _ => True | _ => False end \/
     match p with PNoCache | PNoCacheMaxAge _ => True | _ => False end \/
     match p with PNone | PNoCache | PExpiresInvalid => True | _ => False end) ->
  exists p, served ops k = RResp 200 (BJson d) p None /\
            reqlog st' = (CHttp, k, elapsed ops, RResp 200 (BJson d) p None) :: reqlog (run fuel cfg ops).
Proof. exact load_no_reuse_headers. Qed.
Print Assumptions C19_no_reuse_headers.

(* The same for any classification F / R / N of header sets (forbids storing / demands revalidation /
   no freshness information) that the library respects — this is the form that covers the header
   sets the model knows by number only (PRaw: other letter case, white space, quoted arguments,
   several Cache-Control lines, joined by the loader since f797550): there F, R, N are the RFC verdict
   recorded with each table row, and the three premises are checked on the recorded table every run. *)
Theorem C19_no_reuse_verdict :
  forall fuel cfg (F R N : policy -> Prop) ops u k d st',
  (forall u code b p t, ~ In (Serve u (RResp code b p (Some t))) ops) ->
  (forall p, F p -> cc_store cfg p = false) ->
  (forall p, R p -> cc_nocache cfg p = true) ->
  (forall p, N p -> cc_lifetime cfg p = None) ->
  load fuel cfg (run fuel cfg ops) u = (st', Ok d) ->
  route_of cfg u = ToHttp k ->
  assoc String.eqb k (embedded cfg) = None ->
  (forall pre u0 post p,
     ops = pre ++ Load u0 :: post -> route_of cfg u0 = ToHttp k ->
     served pre k = RResp 200 (BJson d) p None -> F p \/ R p \/ N p) ->
  exists p, served ops k = RResp 200 (BJson d) p None /\
            reqlog st' = (CHttp, k, elapsed ops, RResp 200 (BJson d) p None) :: reqlog (run fuel cfg ops).
Proof. exact load_no_reuse_verdict. Qed.
Print Assumptions C19_no_reuse_verdict.

(* Failed responses (transport error, status other than 200, body that is not JSON) are never
   cached and never returned: while the origin's answer at the key of u is not a 200/JSON response,
   a load of u leaves the cache as it is and returns an error, or a cached-and-fresh / embedded
   document without any request.  And no load that returns an error changes the cache. *)
Theorem C19_failures :
  forall fuel cfg ops u st' out c k,
  (forall u code b p t, ~ In (Serve u (RResp code b p (Some t))) ops) ->
  load fuel cfg (run fuel cfg ops) u = (st', out) -> chan_key cfg u = Some (c, k) ->
  (forall d p, served ops k <> RResp 200 (BJson d) p None) ->
  cache st' = cache (run fuel cfg ops) /\
  ((exists t, out = Err t) \/
   (exists d, out = Ok d /\
     ((exists k pre u0 post p l,
        route_of cfg u = ToHttp k /\ assoc String.eqb k (embedded cfg) = None /\
        ops = pre ++ Load u0 :: post /\ route_of cfg u0 = ToHttp k /\
        served pre k = RResp 200 (BJson d) p None /\ storable cfg p = true /\
        cc_lifetime cfg p = Some l /\ elapsed ops < elapsed pre + l /\
        In (k, (d, TAt (elapsed pre + l))) (cache (run fuel cfg ops)) /\
        st' = run fuel cfg ops)
      \/
      (exists k, route_of cfg u = ToHttp k /\ assoc String.eqb k (embedded cfg) = Some d /\
                 st' = run fuel cfg ops)))).
Proof. exact load_failure. Qed.
Print Assumptions C19_failures.

Theorem C19_failures_error_keeps_cache :
  forall fuel cfg st u st' t,
  (forall k code b p t, origin st k <> RResp code b p (Some t)) ->
  load fuel cfg st u = (st', Err t) -> cache st' = cache st.
Proof. exact load_err_cache. Qed.
Print Assumptions C19_failures_error_keeps_cache.

(* Routing.  `route_of` is the decision table (C19_route_table: all its rows, for all
   configurations).  C19_route_dispatch: whatever the origin serves, a load is the HTTP path for the
   key of its row / the IPFS-client path / an immediate error with the state unchanged.
   C19_route: (no alternate links) a load issues at most one request, and only to the client of its row. *)
Theorem C19_route_dispatch :
  forall fuel cfg st u,
  match route_of cfg u with
  | ToHttp k => load fuel cfg st u = load_http (recf fuel cfg) cfg st k
  | ToNode r => load fuel cfg st u = load_node cfg st r
  | Reject => exists t, load fuel cfg st u = (st, Err t)
  end.
Proof. exact load_route_dispatch. Qed.
Print Assumptions C19_route_dispatch.

Theorem C19_route :
  forall fuel cfg st u st' out,
  (forall k code b p t, origin st k <> RResp code b p (Some t)) ->
  load fuel cfg st u = (st', out) ->
  match route_of cfg u with
  | ToHttp k => reqlog st' = reqlog st \/ reqlog st' = (CHttp, k, now st, origin st k) :: reqlog st
  | ToNode r => reqlog st' = (CNode, node_key r, now st, origin st (node_key r)) :: reqlog st
  | Reject => st' = st /\ exists t, out = Err t
  end.
Proof. exact load_route_requests. Qed.
Print Assumptions C19_route.

Theorem C19_route_table :
  forall cfg,
  (forall s, route_of cfg ("http://" ++ s)%string = ToHttp ("http://" ++ s)%string) /\
  (forall s, route_of cfg ("https://" ++ s)%string = ToHttp ("https://" ++ s)%string) /\
  (forall s, ipfs_client cfg = true -> route_of cfg ("ipfs://" ++ s)%string = ToNode s) /\
  (forall s, ipfs_client cfg = false -> gateway cfg <> ""%string ->
             route_of cfg ("ipfs://" ++ s)%string = ToHttp (gateway_url (gateway cfg) s)) /\
  (forall s, ipfs_client cfg = false -> gateway cfg = ""%string ->
             route_of cfg ("ipfs://" ++ s)%string = Reject) /\
  (forall u, has_prefix "http://" u = false -> has_prefix "https://" u = false ->
             has_prefix "ipfs://" u = false -> route_of cfg u = Reject).
Proof. exact route_table. Qed.
Print Assumptions C19_route_table.

(* Totality and the link to the per-run correspondence: without alternate links no load panics or
   diverges whatever the fuel (the fuel is irrelevant), each issues at most one request (to the client
   and key of its routing row); and what the correspondence check compares with the real loader
   (`observe`) is, for every Load of a history, exactly the outcome and the requests of `load` in the
   state the theorems above speak about. *)
Theorem C19_total :
  forall fuel cfg st u,
  (forall k code b p t, origin st k <> RResp code b p (Some t)) ->
  ((exists d, outcome_of (snd (load fuel cfg st u)) = ODoc d) \/
   outcome_of (snd (load fuel cfg st u)) = OErr) /\
  (new_reqs st (fst (load fuel cfg st u)) = [] \/
   exists c k, chan_key cfg u = Some (c, k) /\ new_reqs st (fst (load fuel cfg st u)) = [(c, k)]).
Proof. exact load_total. Qed.
Print Assumptions C19_total.

Theorem C19_fuel_irrelevant :
  forall f1 f2 cfg st u,
  (forall k code b p t, origin st k <> RResp code b p (Some t)) ->
  load f1 cfg st u = load f2 cfg st u.
Proof. exact load_fuel_irrelevant. Qed.
Print Assumptions C19_fuel_irrelevant.

Theorem C19_fuel_monotone :
  forall f1 f2 cfg st u,
  (f1 <= f2)%nat -> snd (load f1 cfg st u) <> Diverge -> load f2 cfg st u = load f1 cfg st u.
Proof. exact load_mono. Qed.
Print Assumptions C19_fuel_monotone.

Theorem C19_observed :
  forall fuel cfg pre u post,
  In (outcome_of (snd (load fuel cfg (run fuel cfg pre) u)),
      new_reqs (run fuel cfg pre) (fst (load fuel cfg (run fuel cfg pre) u)))
     (observe fuel cfg init (pre ++ Load u :: post)).
Proof. exact observe_load. Qed.
Print Assumptions C19_observed.

(* ---- with rel=alternate Link headers (outside the property's quantifier) ---- *)

(* O-L2: a document whose only response said no-store is returned from the cache, with no request,
   after the origin has moved on — it was stored under the linking URL with that URL's lifetime.
   (ex_cfg: memory engine, hand-written cachecontrol table; any fuel >= 1.) *)
Theorem C19_link_reuse_refuted :
  forall fuel, (1 <= fuel)%nat ->
  let ops := [ Serve u_url (RResp 200 BGarbage (PMaxAge 3000) (Some alt_url));
               Serve alt_url (RResp 200 (BJson 1) PNoStore None); Load u_url;
               Serve alt_url (RResp 200 (BJson 2) PNoStore None); Tick 1000 ] in
  let st := run fuel ex_cfg ops in
  load fuel ex_cfg st u_url = (st, Ok 1) /\
  served ops alt_url = RResp 200 (BJson 2) PNoStore None /\
  cache st = [(u_url, (1, TAt 3000))] /\
  (forall u r, In (Serve u r) ops ->
               (exists code p alt, r = RResp code (BJson 1) p alt) ->
               u = alt_url /\ r = RResp 200 (BJson 1) PNoStore None).
Proof. exact link_reuse_refuted. Qed.
Print Assumptions C19_link_reuse_refuted.

(* O-L1: a response whose alternate link points to itself: the load diverges for every fuel, having
   issued fuel+1 requests — the Go recursion has no bound. *)
Theorem C19_link_diverges_refuted :
  forall fuel,
  let st := run fuel loop_cfg [Serve u_url (RResp 200 BGarbage PNoStore (Some u_url))] in
  snd (load fuel loop_cfg st u_url) = Diverge /\
  List.length (reqlog (fst (load fuel loop_cfg st u_url))) = S fuel.
Proof. exact link_diverges_refuted. Qed.
Print Assumptions C19_link_diverges_refuted.

(* ---- oracles of the Go driver lifted into the model (Loader/RoutingKeys.v) ---- *)

(* (a) The target of a rel=alternate link goes through the same scheme dispatch as a direct load:
   HTTP path under the target's own key (its own cache lookup and entry) / the gateway key, the IPFS
   client, or rejected — for every state, configuration, target and fuel.  `after_alternate` is what
   loadDocumentFromHTTP does with the outcome (store under u with u's headers, or pass the error on). *)
Theorem C19_alternate_routed_by_scheme :
  forall fuel cfg st u b p t,
  url_ok cfg u = true -> origin st u = RResp 200 b p (Some t) ->
  let st1 := log_req st (CHttp, u, now st, RResp 200 b p (Some t)) in
  match route_of cfg t with
  | ToHttp k =>
      fetch (recf (S fuel) cfg) cfg st u =
      after_alternate cfg u p (now st) (load_http (recf fuel cfg) cfg st1 k)
  | ToNode r =>
      fetch (recf (S fuel) cfg) cfg st u = after_alternate cfg u p (now st) (load_node cfg st1 r)
  | Reject =>
      fetch (recf (S fuel) cfg) cfg st u = (st1, Err "alternate"%string)
  end.
Proof. exact alternate_routed_by_scheme. Qed.
Print Assumptions C19_alternate_routed_by_scheme.

Theorem C19_alternate_is_full_load :
  forall fuel cfg st u b p t,
  url_ok cfg u = true -> origin st u = RResp 200 b p (Some t) ->
  fetch (recf (S fuel) cfg) cfg st u =
  after_alternate cfg u p (now st)
    (load fuel cfg (log_req st (CHttp, u, now st, RResp 200 b p (Some t))) t).
Proof. exact alternate_is_full_load. Qed.
Print Assumptions C19_alternate_is_full_load.

Theorem C19_alternate_rejected_target :
  forall fuel cfg st u b p t,
  url_ok cfg u = true -> origin st u = RResp 200 b p (Some t) -> route_of cfg t = Reject ->
  let r := fetch (recf (S fuel) cfg) cfg st u in
  snd r = Err "alternate"%string /\ cache (fst r) = cache st /\
  reqlog (fst r) = (CHttp, u, now st, RResp 200 b p (Some t)) :: reqlog st.
Proof. exact alternate_rejected_target. Qed.
Print Assumptions C19_alternate_rejected_target.

Theorem C19_alternate_node_target :
  forall fuel cfg st u b p t r,
  url_ok cfg u = true -> origin st u = RResp 200 b p (Some t) -> route_of cfg t = ToNode r ->
  reqlog (fst (fetch (recf (S fuel) cfg) cfg st u)) =
  (CNode, node_key r, now st, origin st (node_key r)) ::
  (CHttp, u, now st, RResp 200 b p (Some t)) :: reqlog st.
Proof. exact alternate_node_target. Qed.
Print Assumptions C19_alternate_node_target.

(* seeds C19-i / C19-n / C19-q (target handed to the HTTP path directly): an ftp:// target is fetched
   and an ipfs:// target goes to the HTTP client *)
Theorem C19_alternate_unrouted_refuted :
  let cfg := rk_cfg true "http://gw.test" in
  let st := run 1 cfg [Serve "ftp://a.test/d1" (RResp 200 (BJson 1) (PMaxAge 1000) None);
                       Serve "ipfs://Qm/x" (RResp 200 (BJson 2) PNone None)] in
  load 0 cfg st "ftp://a.test/d1" = (st, Err "unsupported-scheme"%string) /\
  snd (load_http (recf 0 cfg) cfg st "ftp://a.test/d1") = Ok 1 /\
  new_reqs st (fst (load_http (recf 0 cfg) cfg st "ftp://a.test/d1")) = [(CHttp, "ftp://a.test/d1"%string)] /\
  new_reqs st (fst (load 0 cfg st "ipfs://Qm/x")) = [(CNode, "ipfs://Qm/x"%string)] /\
  new_reqs st (fst (load_http (recf 0 cfg) cfg st "ipfs://Qm/x")) = [(CHttp, "ipfs://Qm/x"%string)].
Proof. exact alternate_unrouted_refuted. Qed.
Print Assumptions C19_alternate_unrouted_refuted.

(* (b) Cache keys are the URL string as given, fragment included: Set under one string never changes
   what Get answers under any other string; what was set is found under exactly that string; Get looks
   the embedded documents and the cache up under exactly the string it is given; and a load can only
   create or replace the entry of its own key. *)
Theorem C19_cache_key_is_url :
  forall cfg st,
  (forall k' d e st' k, engine_set cfg st k' d e = Some st' -> k <> k' ->
                        engine_get cfg st' k = engine_get cfg st k) /\
  (forall k d e st', engine_set cfg st k d e = Some st' -> get_fails cfg = false ->
                     assoc String.eqb k (embedded cfg) = None -> engine_get cfg st' k = GHit d e) /\
  (forall k, get_fails cfg = false ->
             engine_get cfg st k =
             match assoc String.eqb k (embedded cfg) with
             | Some d => GHit d (TAt (now st + 3600))
             | None => match assoc String.eqb k (cache st) with Some (d, e) => GHit d e | None => GMiss end
             end).
Proof.
  intros cfg st. split; [|split].
  - exact (set_other_key cfg st).
  - exact (set_then_get cfg st).
  - exact (get_exact_key cfg st).
Qed.
Print Assumptions C19_cache_key_is_url.

Theorem C19_load_touches_own_key :
  forall fuel cfg st u st' out k',
  (forall k code b p t, origin st k <> RResp code b p (Some t)) ->
  load fuel cfg st u = (st', out) ->
  (forall k, route_of cfg u = ToHttp k -> k' <> k) ->
  assoc String.eqb k' (cache st') = assoc String.eqb k' (cache st).
Proof. exact load_touches_own_key. Qed.
Print Assumptions C19_load_touches_own_key.

(* seed C19-j (Get/Set strip "#fragment", embedded documents stay under the raw URL) *)
Theorem C19_fragment_stripping_refuted :
  let cfg := {| cache_mode_of := CacheMemory [("https://schema.example/kyc.jsonld#v2"%string, 902)];
                ipfs_client := false; gateway := ""%string; url_ok := fun _ => true; cc := cc_reference |} in
  engine_get cfg init "https://schema.example/kyc.jsonld#v2" = GHit 902 (TAt 3600) /\
  get_stripped cfg init "https://schema.example/kyc.jsonld#v2" = GMiss /\
  engine_set cfg init "https://schema.example/kyc.jsonld#v2" 7 (TAt 1000) = Some init /\
  (exists st', set_stripped cfg init "https://schema.example/kyc.jsonld#v2" 7 (TAt 1000) = Some st' /\
               cache st' = [("https://schema.example/kyc.jsonld"%string, (7, TAt 1000))]) /\
  (exists st', set_stripped cfg init "http://a.test/d1#v1" 4 (TAt 3000) = Some st' /\
               get_stripped cfg st' "http://a.test/d1#v2" = GHit 4 (TAt 3000)) /\
  (exists st', engine_set cfg init "http://a.test/d1#v1" 4 (TAt 3000) = Some st' /\
               engine_get cfg st' "http://a.test/d1#v2" = GMiss).
Proof. exact fragment_stripping_refuted. Qed.
Print Assumptions C19_fragment_stripping_refuted.

(* (c) Every Cache-Control line of a response reaches the library: the one line it reads
   (Header.Get after the join of f797550) is the comma-joined text of all lines, so the loader's
   decisions on a multi-line header set are its decisions on the joined line. *)
Theorem C19_library_sees_every_line :
  forall h, lib_view (PRaw h) = PRaw [List.concat h].
Proof. exact library_sees_every_line. Qed.
Print Assumptions C19_library_sees_every_line.

Theorem C19_multi_line_decisions :
  forall cfg h,
  cc_store cfg (PRaw h) = cc_store cfg (PRaw [List.concat h]) /\
  cc_nocache cfg (PRaw h) = cc_nocache cfg (PRaw [List.concat h]) /\
  cc_lifetime cfg (PRaw h) = cc_lifetime cfg (PRaw [List.concat h]) /\
  storable cfg (PRaw h) = storable cfg (PRaw [List.concat h]).
Proof. exact multi_line_decisions. Qed.
Print Assumptions C19_multi_line_decisions.

(* seed C19-l (join only when more than two lines) and the tree before f797550 (never joined):
   with two lines the library gets the first line only *)
Theorem C19_join_off_by_one_refuted :
  first_line (join_cc [[1]; [2]]) = [1; 2] /\
  first_line (join_cc_more_than_two [[1]; [2]]) = [1] /\
  first_line [[1]; [2]] = [1].
Proof. exact join_off_by_one_refuted. Qed.
Print Assumptions C19_join_off_by_one_refuted.
