(* Properties/C04.v — Value encoding is canonical, injective and range-safe per
   datatype.  ONLY restatements closed by `exact`, each followed by
   Print Assumptions.  Model: Value/Model.v (+Time.v); proofs: Value/Theory.v. *)
From Coq Require Import ZArith List String.
From GSP Require Import Base.Prelude Value.Time Value.Model Value.Theory.
Import ListNotations.
Open Scope Z_scope.

(* integer types: accepted exactly inside the type's range, encoded as v / p+v,
   never reduced modulo p; out-of-range and ill-formed values are errors *)
Theorem C04_int_accept_value :
  forall H F dt lex k e,
  odd_modulus (h_prime H) -> classify dt = DInt k -> String.eqb dt xsd_double = false ->
  (value_to_hash H F dt (GStr lex) = Ok e <->
   exists z, int_from_str lex = Some z /\ lo k (h_prime H) <= z <= hi k (h_prime H) /\
             e = enc (h_prime H) z).
Proof. exact hash_int_lexical. Qed.
Print Assumptions C04_int_accept_value.

Theorem C04_int_in_field :
  forall k p z, odd_modulus p -> lo k p <= z <= hi k p -> 0 <= enc p z < p.
Proof. exact enc_in_field. Qed.
Print Assumptions C04_int_in_field.

Theorem C04_int_injective :
  forall k p z1 z2, odd_modulus p -> lo k p <= z1 <= hi k p -> lo k p <= z2 <= hi k p ->
  enc p z1 = enc p z2 -> z1 = z2.
Proof. exact enc_injective. Qed.
Print Assumptions C04_int_injective.

Theorem C04_int_spelling :
  forall H F dt k lex1 lex2 z,
  odd_modulus (h_prime H) -> classify dt = DInt k -> String.eqb dt xsd_double = false ->
  int_from_str lex1 = Some z -> int_from_str lex2 = Some z ->
  value_to_hash H F dt (GStr lex1) = value_to_hash H F dt (GStr lex2).
Proof. exact hash_int_spelling. Qed.
Print Assumptions C04_int_spelling.

Theorem C04_int_rejects :
  forall H F dt lex k,
  odd_modulus (h_prime H) -> classify dt = DInt k -> String.eqb dt xsd_double = false ->
  (int_from_str lex = None \/
   exists z, int_from_str lex = Some z /\ ~ (lo k (h_prime H) <= z <= hi k (h_prime H))) ->
  exists t, value_to_hash H F dt (GStr lex) = Err t.
Proof. exact hash_int_rejects. Qed.
Print Assumptions C04_int_rejects.

(* booleans: H([1]) / H([0]); exactly six lexical forms; distinct unless the hash collides *)
Theorem C04_bool :
  forall H F lex,
  value_to_hash H F xsd_boolean (GStr lex) =
  match bool_lex lex with
  | Some b => of_ores (h_hash H [if b then 1 else 0]) "hash"
  | None => Err "bool"
  end.
Proof. exact hash_bool. Qed.
Print Assumptions C04_bool.

Theorem C04_bool_distinct :
  forall H F l1 l2 e,
  bool_lex l1 = Some true -> bool_lex l2 = Some false ->
  value_to_hash H F xsd_boolean (GStr l1) = Ok e ->
  value_to_hash H F xsd_boolean (GStr l2) = Ok e ->
  h_hash H [1] = h_hash H [0].
Proof. exact hash_bool_distinct. Qed.
Print Assumptions C04_bool_distinct.

(* dateTime: Unix nanoseconds mod p of the parsed instant *)
Theorem C04_time :
  forall H F lex,
  value_to_hash H F xsd_datetime (GStr lex) =
  match parse_datetime lex with
  | Some (u, n) => Ok ((u * 1000000000 + n) mod h_prime H)
  | None => Err "time"
  end.
Proof. exact hash_time. Qed.
Print Assumptions C04_time.

Theorem C04_time_injective :
  forall p x1 x2, 2 ^ 70 <= p -> instant_in_range x1 -> instant_in_range x2 ->
  x1 mod p = x2 mod p -> x1 = x2.
Proof. exact time_injective. Qed.
Print Assumptions C04_time_injective.

(* any other datatype: hash of the string *)
Theorem C04_other :
  forall H F dt s, classify dt = DOther -> String.eqb dt xsd_double = false ->
  value_to_hash H F dt (GStr s) = of_ores (h_bytes H s) "hashbytes".
Proof. exact hash_other. Qed.
Print Assumptions C04_other.
