(* Properties/C01.v — Merklized entries are exactly the document's facts.
   ONLY restatements closed by `exact`, each followed by Print Assumptions.
   Model: RDF/Model.v (EntriesFromRDFWithHasher), Merklizer/Model.v (merklize_ds);
   spec: RDF/Spec.v (parent, anc_path, child_index, value_index, fact, value_quads);
   proofs: RDF/Th*.v, RDF/Theory.v.  All statements hold for EVERY dataset with
   unique graph names (a Go map), of any size, in any graph order, for every prime
   (hasher configuration) and every float oracle. *)
From Coq Require Import ZArith List String Bool.
From GSP Require Import Base.Prelude Value.Time Value.Model SMT.Model RDF.Model RDF.Spec
  RDF.ThTotal RDF.ThPath RDF.ThIndex RDF.Theory RDF.ThLeaves Merklizer.Model.
Import ListNotations.
Open Scope bool_scope.

(* the entries are, one for one and in the deterministic order (graph names sorted,
   then slice order), the literal- and IRI-valued quads of the dataset, each under
   its unique ancestor path + own predicate + value index, holding the converted
   value and the datatype: nothing dropped, duplicated, merged or invented *)
Theorem C01_entries_exact :
  forall F prime ds es,
  is_map ds -> entries_from_rdf F prime ds = Ok es ->
  Forall2 (fun e iq =>
             exists pi p,
               anc_path ds (fst iq) pi /\ qp (snd iq) = NIri p /\
               e_key e = pi ++ [PStr p] ++ opt_part (value_index ds (fst iq)) /\
               match qo (snd iq) with
               | NLit lex d => convert F d lex prime = Ok (e_val e) /\ e_dt e = d
               | NIri s => e_val e = XStr s /\ e_dt e = ""%string
               | NBlank _ => False
               end)
          es (filter (fun iq => is_value (snd iq)) (positions ds)).
Proof. exact entries_exact_fact. Qed.
Print Assumptions C01_entries_exact.

Theorem C01_entries_count :
  forall F prime ds es,
  is_map ds -> entries_from_rdf F prime ds = Ok es ->
  List.length es = List.length (value_quads ds).
Proof. exact entries_count. Qed.
Print Assumptions C01_entries_count.

(* the entry of a quad is unique: its node has exactly one path *)
Theorem C01_path_unique :
  forall ds i p1, anc_path ds i p1 -> forall p2, anc_path ds i p2 -> p1 = p2.
Proof. exact anc_path_unique. Qed.
Print Assumptions C01_path_unique.

Theorem C01_entry_determined :
  forall F prime ds e e' iq, fact F prime ds e iq -> fact F prime ds e' iq -> e = e'.
Proof. exact fact_functional. Qed.
Print Assumptions C01_entry_determined.

(* value indices: the integer that ends an entry's key is the value index of its quad ... *)
Theorem C01_indices_entries :
  forall F prime ds es,
  is_map ds -> entries_from_rdf F prime ds = Ok es ->
  Forall2 (fun e iq => last_index (e_key e) = option_map Z.of_nat (value_index ds (fst iq)))
          es (value_quads ds).
Proof. exact entries_value_index. Qed.
Print Assumptions C01_indices_entries.

(* ... and over the value quads of one (subject, predicate, graph) group, in order,
   these indices are absent when the group has one quad and exactly 0..m-1 otherwise *)
Theorem C01_indices_value :
  forall ds g l k,
  lookup_graph ds g = Some l ->
  let ms := filter (fun iq => same_key g k (snd iq) && is_value (snd iq)) (graph_positions g l) in
  map (fun iq => value_index ds (fst iq)) ms =
  if Nat.leb (group_size g l k) 1 then map (fun _ => None) ms
  else map Some (seq 0 (List.length ms)).
Proof. exact value_indices_exact. Qed.
Print Assumptions C01_indices_value.

(* child indices: the distinct child nodes of a parent key carry no index when there
   is one of them and exactly 0..c-1 (first appearance first) otherwise *)
Theorem C01_indices_child :
  forall ds k,
  let cs := child_nodes ds k in
  NoDup cs /\
  (List.length cs = 1%nat -> forall c, child_index ds k c = None) /\
  (List.length cs <> 1%nat -> map (child_index ds k) cs = map Some (seq 0 (List.length cs))) /\
  (forall c, ~ In c cs -> child_index ds k c = None).
Proof. exact child_indices_exact. Qed.
Print Assumptions C01_indices_child.

(* and the node of every quad that has a parent is one of those numbered children *)
Theorem C01_indices_child_member :
  forall ds i qi si j kj,
  quad_at ds i = Some qi -> get_ref (qs qi) = Some si ->
  parent ds i = Some j -> key_at ds j = Some kj ->
  In si (child_nodes ds kj).
Proof. exact child_member. Qed.
Print Assumptions C01_indices_child_member.

(* a node referenced from two places inside its graph is rejected with an error *)
Theorem C01_shared_rejected :
  forall F prime ds i q s j1 q1 j2 q2,
  is_map ds ->
  quad_at ds i = Some q -> get_ref (qs q) = Some s ->
  quad_at ds j1 = Some q1 -> quad_at ds j2 = Some q2 ->
  fst j1 = fst i -> fst j2 = fst i -> j1 <> j2 ->
  get_ref (qo q1) = Some s -> get_ref (qo q2) = Some s ->
  exists t, entries_from_rdf F prime ds = Err t.
Proof. exact shared_two_referrers_rejected. Qed.
Print Assumptions C01_shared_rejected.

(* two references to the blank node of a named graph: rejected *)
Theorem C01_shared_graph_rejected :
  forall F prime ds i q s g j1 q1 j2 q2,
  is_map ds ->
  quad_at ds i = Some q -> get_ref (qs q) = Some s -> qg q = Some (NBlank g) ->
  referrers ds (fst i) s = [] ->
  quad_at ds j1 = Some q1 -> quad_at ds j2 = Some q2 ->
  j1 <> i -> j2 <> i -> j1 <> j2 ->
  get_ref (qo q1) = Some (RBlank g) -> get_ref (qo q2) = Some (RBlank g) ->
  exists t, entries_from_rdf F prime ds = Err t.
Proof. exact shared_graph_node_rejected. Qed.
Print Assumptions C01_shared_graph_rejected.

(* in an accepted dataset every quad's node has at most one referrer *)
Theorem C01_accepted_unshared :
  forall F prime ds es i q,
  is_map ds -> entries_from_rdf F prime ds = Ok es -> quad_at ds i = Some q ->
  forall q' s, quad_at ds i = Some q' -> get_ref (qs q') = Some s ->
    (List.length (referrers ds (fst i) s) <= 1)%nat /\
    (referrers ds (fst i) s = [] -> forall g, qg q' = Some (NBlank g) ->
     (List.length (all_referrers ds i (RBlank g)) <= 1)%nat).
Proof. exact accepted_unshared. Qed.
Print Assumptions C01_accepted_unshared.

(* a blank-node object whose key has no registered child node is never merklized *)
Theorem C01_blank_leaf_rejected :
  forall F prime ds i q b k,
  is_map ds -> quad_at ds i = Some q -> qo q = NBlank b ->
  key_at ds i = Some k -> child_nodes ds k = [] ->
  forall es, entries_from_rdf F prime ds <> Ok es.
Proof. exact blank_leaf_rejected. Qed.
Print Assumptions C01_blank_leaf_rejected.

(* a statement below a reference cycle has no path: never merklized *)
Theorem C01_cycle_rejected :
  forall F prime ds i q j,
  is_map ds -> In (i, q) (value_quads ds) -> reaches ds i j ->
  (exists j', parent ds j = Some j' /\ reaches ds j' j) ->
  forall es, entries_from_rdf F prime ds <> Ok es.
Proof. exact cycle_rejected. Qed.
Print Assumptions C01_cycle_rejected.

(* ... and it is an error (not a Panic) whenever the float oracle answers every call *)
Theorem C01_cycle_is_error :
  forall F prime ds i q j,
  is_map ds -> (forall dt v w, convert F dt v prime <> Panic w) ->
  In (i, q) (value_quads ds) -> reaches ds i j ->
  (exists j', parent ds j = Some j' /\ reaches ds j' j) ->
  exists t, entries_from_rdf F prime ds = Err t.
Proof. exact cycle_is_error. Qed.
Print Assumptions C01_cycle_is_error.

(* a node that refers to itself (reference cycle of length one): none of its statements
   is merklized.  (Refuted before fix b73a54e: finding D25, witness
   {"@id":"urn:c0","name":"n0","next":{"@id":"urn:c0"}} was accepted with `name`
   filed under [next; name]; RDF/Theory.v keeps it as Example ds_selfref_err.) *)
Theorem C01_self_reference_rejected :
  forall F prime ds i q s i' q',
  is_map ds ->
  quad_at ds i = Some q -> get_ref (qs q) = Some s -> get_ref (qo q) = Some s ->
  In (i', q') (value_quads ds) -> fst i' = fst i -> get_ref (qs q') = Some s ->
  forall es, entries_from_rdf F prime ds <> Ok es.
Proof. exact self_reference_rejected. Qed.
Print Assumptions C01_self_reference_rejected.

(* the parent walk never exhausts its fuel: any fuel above the number of quads
   suffices, whatever the relationship maps contain (cycles are cut by the
   visited set and reported as an error) *)
Theorem C01_terminates_walk :
  forall fuel r ds i q k,
  quad_at ds i = Some q -> (total_quads ds < fuel)%nat ->
  walk fuel r ds [i] i k <> Diverge.
Proof. exact walk_fuel_suffices. Qed.
Print Assumptions C01_terminates_walk.

(* EntriesFromRDF on ANY dataset returns entries or an error: it never hangs,
   and the only Panic of the model is a miss of the recorded float oracle *)
Theorem C01_terminates :
  forall F prime ds,
  entries_from_rdf F prime ds <> Diverge /\
  forall w, entries_from_rdf F prime ds = Panic w -> exists dt v, convert F dt v prime = Panic w.
Proof. exact entries_total. Qed.
Print Assumptions C01_terminates.

(* MerklizeJSONLD from the normalised dataset on: one leaf per entry, entries =
   value quads, stored entries = the entries, keys pairwise distinct *)
Theorem C01_leaves :
  forall T Hd F cfg ds m,
  is_map ds -> merklize_ds T Hd F cfg None ds = Ok m ->
  let h := hasher_or Hd cfg in
  exists es,
    entries_from_rdf F (h_prime h) ds = Ok es /\
    Forall2 (fact F (h_prime h) ds) es (value_quads ds) /\
    map snd (mz_entries m) = map (wrap_entry h (Some h)) es /\
    NoDup (map fst (mz_entries m)) /\
    List.length (leaves (mz_tree m)) = List.length es /\
    NoDup (keys (mz_tree m)).
Proof. exact leaves_exact. Qed.
Print Assumptions C01_leaves.

(* ... and no two entries share a path: a dataset in which two different statements end
   up under the same path (two root nodes with a common property, ...) is never
   merklized with one of them dropped or overwritten (checked per run by RDF/RunMz.v) *)
Theorem C01_leaves_distinct_paths :
  forall T Hd F cfg ds m,
  merklize_ds T Hd F cfg None ds = Ok m ->
  exists es,
    entries_from_rdf F (h_prime (hasher_or Hd cfg)) ds = Ok es /\
    NoDup (map e_key es) /\ distinct_paths (map e_key es) = true.
Proof. exact leaves_distinct_paths. Qed.
Print Assumptions C01_leaves_distinct_paths.

(* literals are stored verbatim: for every datatype other than boolean, the five integer
   types, dateTime and double (xsd:string, rdf:langString, custom types) the entry's value
   is the lexical form itself, character for character (no trimming, no case folding);
   an IRI object is stored as the IRI *)
Theorem C01_literals_verbatim :
  forall F prime ds es,
  is_map ds -> entries_from_rdf F prime ds = Ok es ->
  Forall2 (fun e iq =>
             (forall lex d, qo (snd iq) = NLit lex d -> classify d = DOther ->
                            e_val e = XStr lex /\ e_dt e = d) /\
             (forall s, qo (snd iq) = NIri s -> e_val e = XStr s /\ e_dt e = ""%string))
          es (value_quads ds).
Proof. exact literals_verbatim. Qed.
Print Assumptions C01_literals_verbatim.

(* the stored value and datatype are a function of the quad's object (datatype and
   lexical form) only: not of the position, the path or the neighbours *)
Theorem C01_value_function_of_object :
  forall F prime ds e e' iq iq',
  fact F prime ds e iq -> fact F prime ds e' iq' -> qo (snd iq) = qo (snd iq') ->
  e_val e = e_val e' /\ e_dt e = e_dt e'.
Proof. exact value_function_of_object. Qed.
Print Assumptions C01_value_function_of_object.

(* success accounts for every quad: each literal/IRI quad is stated by one of the entries,
   each blank-object quad is a registered parent; nothing is left out silently *)
Theorem C01_every_quad_accounted :
  forall F prime ds es i q,
  is_map ds -> entries_from_rdf F prime ds = Ok es -> quad_at ds i = Some q ->
  (is_value q = true -> exists e, In e es /\ fact F prime ds e (i, q)) /\
  (is_value q = false -> exists k, key_at ds i = Some k /\ child_nodes ds k <> []).
Proof. exact every_quad_accounted. Qed.
Print Assumptions C01_every_quad_accounted.

(* hence a dataset with an ill-typed literal is never merklized (with C01_blank_leaf_rejected
   for empty nodes and C01_shared_rejected for nodes with two parents: the rejected shapes) *)
Theorem C01_ill_typed_rejected :
  forall F prime ds i q lex d,
  is_map ds -> quad_at ds i = Some q -> qo q = NLit lex d ->
  (forall x, convert F d lex prime <> Ok x) ->
  forall es, entries_from_rdf F prime ds <> Ok es.
Proof. exact ill_typed_rejected. Qed.
Print Assumptions C01_ill_typed_rejected.

Theorem C01_non_integer_rejected :
  forall F prime ds i q lex d k,
  is_map ds -> quad_at ds i = Some q -> qo q = NLit lex d ->
  classify d = DInt k -> int_from_str lex = None ->
  forall es, entries_from_rdf F prime ds <> Ok es.
Proof. exact non_integer_rejected. Qed.
Print Assumptions C01_non_integer_rejected.
