(* Properties/C01.v — Merklized entries are exactly the document's facts.
   ONLY restatements closed by `exact`, each followed by Print Assumptions.
   Model: RDF/Model.v; spec: RDF/Spec.v; proofs: RDF/Th*.v, RDF/Theory.v. *)
From Coq Require Import ZArith List String.
From GSP Require Import Base.Prelude Value.Time Value.Model RDF.Model RDF.Spec RDF.ThTotal.
Import ListNotations.

(* the parent walk never exhausts its fuel: any fuel above the number of quads
   suffices, whatever the relationship maps contain (cycles are cut by the
   visited set and reported as an error) *)
Theorem C01_terminates_walk :
  forall fuel r ds i q k,
  quad_at ds i = Some q -> (total_quads ds < fuel)%nat ->
  walk fuel r ds [i] i k <> Diverge.
Proof. exact walk_fuel_suffices. Qed.
Print Assumptions C01_terminates_walk.

(* EntriesFromRDF on ANY dataset returns entries or an error: it never hangs,
   and the only Panic of the model is a miss of the recorded float oracle *)
Theorem C01_terminates :
  forall F prime ds,
  entries_from_rdf F prime ds <> Diverge /\
  forall w, entries_from_rdf F prime ds = Panic w -> exists dt v, convert F dt v prime = Panic w.
Proof. exact entries_total. Qed.
Print Assumptions C01_terminates.
