(* Property C20 — concurrent use of shared loaders and merklizers is safe and deterministic.
   PARTIAL by nature: the theorems are about an interleaving model (sequentially consistent,
   atomic events) of the lock/event skeleton that harness/c20/translate.go extracts from
   loaders/memory_cache.go on every run.  The Go memory model, races inside dependencies and
   the scheduler are outside the model; they are searched with the race detector by the driver. *)
From Coq Require Import List String Bool Arith Sorted.
From Coq Require Import ZArith.
From GSP Require Import Conc.Sem Conc.Theory Conc.Instance Conc.LoaderModel Conc.LoaderTheory Generated.CacheSkeleton.
Import ListNotations.
Open Scope string_scope.

(* For every program whose methods pass the executable discipline check, every number of threads,
   every list of calls per thread (each call = one control path of one method, with an arbitrary
   update function for its write), every initial map and every schedule: the state reached is not
   racy, no thread is about to fault the runtime, the system is not deadlocked, and the values
   observed / produced at the map accesses are those of the sequential execution of the same calls
   taken in the order of their map accesses (each call at most once; every call with a map access
   exactly once when all threads are done). *)
Theorem C20_discipline_sound :
  forall prog : list skeleton,
  forallb discipline_ok prog = true ->
  forall (V : Type) (v0 : V) (ths : list (list (@call V))),
  Forall (Forall (fun c => exists sk, In sk prog /\ In (c_trace c) (paths sk))) ths ->
  forall (sched : list nat) (h : list (@label V)) (s : @state V),
  run sched v0 ths = Some (h, s) ->
    ~ race s /\ ~ faulty s /\ (all_done s \/ can_step s) /\
    (exists cs : list (@call V),
       map (get_call ths) (lin_order h) = map Some cs /\
       NoDup (lin_order h) /\
       lin_vals h = seq_vals v0 cs /\
       st_mem s = seq_mem v0 cs) /\
    (all_done s -> forall t k c, get_call ths (t, k) = Some c -> existsb is_access (c_trace c) = true ->
                   In (t, k) (lin_order h)).
Proof. exact discipline_sound. Qed.
Print Assumptions C20_discipline_sound.

(* Within every thread the calls are linearized in the order in which the thread issued them
   (call indices strictly increasing along the linearization); across threads the linearization
   point of a call is one of the call's own events, hence lies between its invocation and return. *)
Theorem C20_program_order :
  forall prog : list skeleton,
  forallb discipline_ok prog = true ->
  forall (V : Type) (v0 : V) (ths : list (list (@call V))),
  Forall (Forall (fun c => exists sk, In sk prog /\ In (c_trace c) (paths sk))) ths ->
  forall (sched : list nat) (h : list (@label V)) (s : @state V),
  run sched v0 ths = Some (h, s) ->
  forall t : nat, StronglySorted lt (map snd (filter (fun id => Nat.eqb (fst id) t) (lin_order h))).
Proof. exact discipline_program_order. Qed.
Print Assumptions C20_program_order.

(* The instance, decided on the skeleton regenerated from the Go source of this run. *)
Theorem C20_cache :
  discipline_ok generated_get = true /\ discipline_ok generated_set = true.
Proof. exact cache_discipline. Qed.
Print Assumptions C20_cache.

Theorem C20_cache_all_methods :
  forallb discipline_ok (map snd generated_methods) = true /\ generated_embedDocs_immutable = true /\
  In ("Get", generated_get) generated_methods /\ In ("Set", generated_set) generated_methods.
Proof. exact (conj (proj1 cache_all_methods) (conj (proj2 cache_all_methods) cache_get_set_listed)). Qed.
Print Assumptions C20_cache_all_methods.

(* Merklization, proof generation, hashing and loading share no mutable package-level state:
   in the tables extracted by the translator, a package-level variable of loaders / merklize is
   written (assignment, op=, ++/--, element or field assignment, delete, address-of) only by
   SetHasher / SetDocumentLoader, no method of *Merklizer other than UnmarshalBinary and no method
   of *documentLoader assigns a receiver field, and the only assignment a documentLoader method makes
   through a document pointer obtained from cacheEngine.Get / another loader method (a possibly shared
   cache entry) is the nil-guarded `doc.Document` of loadDocumentFromHTTP. *)
Theorem C20_pure :
  (forall p v ws w, In (p, v, ws) generated_pkg_vars -> In w ws ->
     In (p, v, w) [("merklize", "defaultHasher", "SetHasher"); ("merklize", "defaultDocumentLoader", "SetDocumentLoader")]) /\
  (forall m fs, In (m, fs) generated_merklizer_methods -> fs <> [] -> In m ["UnmarshalBinary"]) /\
  (forall m fs, In (m, fs) generated_loader_methods -> fs <> [] -> False) /\
  (forall m ws w, In (m, ws) generated_loader_shared_writes -> In w ws ->
     In (m, w) [("loadDocumentFromHTTP", "doc.Document")]).
Proof.
  exact (conj (pkg_vars_ok_spec _ (proj1 cache_pure))
        (conj (methods_readonly_spec _ _ (proj1 (proj2 cache_pure)))
        (conj (methods_readonly_spec _ _ (proj1 (proj2 (proj2 cache_pure))))
              (shared_writes_ok_spec _ (proj2 (proj2 (proj2 cache_pure))))))).
Qed.
Print Assumptions C20_pure.

(* Lock discipline of the translated skeleton, spelled out: on every control path of every entry-point
   method of memoryCacheEngine (calls of other methods inlined), a map write happens only while the
   write lock is held, a map read only while the read or the write lock is held, and the path ends
   holding nothing (run_hold is the abstract interpretation of what the calling goroutine holds).
   Together with C20_discipline_sound such skeletons are data-race-free under every interleaving. *)
Theorem C20_writes_under_write_lock :
  forall name sk, In (name, sk) generated_methods -> forall tr, In tr (paths sk) ->
    (forall pre post, tr = (pre ++ EvWrite :: post)%list -> run_hold HN pre = Some HW) /\
    (forall pre post, tr = (pre ++ EvRead :: post)%list -> run_hold HN pre = Some HR \/ run_hold HN pre = Some HW) /\
    run_hold HN tr = Some HN.
Proof. exact cache_writes_under_write_lock. Qed.
Print Assumptions C20_writes_under_write_lock.

(* The loader (HTTP branch of LoadDocument, Conc/LoaderModel.v) over the atomic cache, for every number of
   goroutines and every interleaving of their steps, of the origin's answers (a new version each time,
   with or without an expiry, or a failure) and of clock ticks: a load that returns a version it did not
   fetch itself started before the (unique) expiry under which that version was stored. *)
Theorem C20_no_stale_after_expiry :
  forall (n : nat) (acts : list action) (s : lstate),
  lrun Correct (linit n) acts = Some s ->
  forall ts te v : Z, In (RLoad ts te (Some v)) (log s) ->
    (exists fs fe, In (RServe v fs fe true) (log s) /\ (ts <= fs)%Z /\ (fe <= te)%Z) \/
    (exists x, In (RStore v x) (log s) /\ (ts < x)%Z /\ forall x', In (RStore v x') (log s) -> x' = x).
Proof. exact no_stale_after_expiry. Qed.
Print Assumptions C20_no_stale_after_expiry.

(* A load fails only if the origin failed one of the load's own requests. *)
Theorem C20_failure_needs_origin_failure :
  forall (n : nat) (acts : list action) (s : lstate),
  lrun Correct (linit n) acts = Some s ->
  forall ts te : Z, In (RLoad ts te None) (log s) ->
    exists k fs fe, In (RServe k fs fe false) (log s) /\ (ts <= fs)%Z /\ (fe <= te)%Z.
Proof. exact failure_needs_origin_failure. Qed.
Print Assumptions C20_failure_needs_origin_failure.

(* Hence the executable judgement that is applied to the logs recorded on the implementation accepts
   every log the model can write ... *)
Theorem C20_model_log_explained :
  forall (n : nat) (acts : list action) (s : lstate),
  lrun Correct (linit n) acts = Some s -> log_explained (rev (log s)) = true.
Proof. exact model_log_explained. Qed.
Print Assumptions C20_model_log_explained.

(* ... and rejects the seeded variants: re-arming an expired entry before the refresh (C20-j) hands a
   version that expired at 2 to a load that started at 3 and fetched nothing; waiting for another
   goroutine's fetch without a fallback (C20-h) fails a load although the origin failed nobody. *)
Theorem C20_rearm_refuted :
  exists s, lrun (Rearm 5) (linit 2) ex_rearm_acts = Some s /\
    In (RLoad 3 3 (Some 1%Z)) (log s) /\ log_explained (rev (log s)) = false /\
    (forall fs fe, ~ In (RServe 1 fs fe true) (log s) \/ ~ (3 <= fs)%Z) /\ first_store (rev (log s)) 1 = Some 2%Z.
Proof. exact rearm_refuted. Qed.
Print Assumptions C20_rearm_refuted.

Theorem C20_nofallback_refuted :
  exists s, lrun NoFallback (linit 2) ex_nofallback_acts = Some s /\
    In (RLoad 0 0 None) (log s) /\ (forall k fs fe, ~ In (RServe k fs fe false) (log s)) /\
    log_explained (rev (log s)) = false.
Proof. exact nofallback_refuted. Qed.
Print Assumptions C20_nofallback_refuted.
