(* Properties/C03.v — Root is a canonical function of the document's meaning.
   ONLY restatements closed by `exact`, each followed by Print Assumptions.
   Models: RDF/Model.v (entries_from_rdf), RDF/OrdTree.v (merklize_tree: entries ->
   mz.entries keys -> AddEntriesToMerkleTree -> tree), SMT/Model.v (tree, root, mt_add).
   Proofs: RDF/OrdSort.v, RDF/Order.v, RDF/OrdTree.v, SMT/Theory.v.

   A dataset `gs` is Go's map ds.Graphs as a LIST in arbitrary order; "for every
   iteration order of the map" = "for every Permutation of gs"; a Go map has no duplicate
   keys = NoDup (map fst gs).  H is the configured hasher as an arbitrary recorded oracle
   (no assumption on Poseidon), hl/hm the tree's leaf/middle hash (arbitrary functions).

   NOT proved here (json-gold's expansion + URDNA2015, not modelled): invariance under JSON
   re-presentations (key order, array permutation, whitespace, number spellings, blank-node
   relabelling, inline vs remote context).  That part of C03 is checked metamorphically
   on the implementation by harness/c03 on every run. *)
From Coq Require Import ZArith List String Bool Permutation.
From GSP Require Import Base.Prelude Value.Time Value.Model Value.Theory
                        RDF.Model RDF.OrdSort RDF.Order RDF.OrdTree RDF.OrdSpell RDF.OrdLabels RDF.OrdFail
                        SMT.Model SMT.Theory SMT.Sound.
Import ListNotations.
Open Scope Z_scope.

(* (a) Go's map iteration order over ds.Graphs (assertDatasetConsistency, findGraphParent,
   iterGraphsOrdered) cannot change the entries: equal on success (same entries, same
   order), both fail otherwise; Panic/Diverge would be reproduced identically. *)
Theorem C03_graph_order :
  forall (F : floats) (prime : Z) (gs gs' : dataset),
  NoDup (map fst gs) -> Permutation gs gs' ->
  match entries_from_rdf F prime gs with
  | Ok es => entries_from_rdf F prime gs' = Ok es
  | Err _ => exists t', entries_from_rdf F prime gs' = Err t'
  | Panic w => entries_from_rdf F prime gs' = Panic w
  | Diverge => entries_from_rdf F prime gs' = Diverge
  end.
Proof. exact graph_order. Qed.
Print Assumptions C03_graph_order.

(* sharper: the outcome is LITERALLY the same (error tag included) unless both runs stop in
   assertDatasetConsistency, where only the reported inconsistency may differ *)
Theorem C03_graph_order_precise :
  forall (F : floats) (prime : Z) (gs gs' : dataset),
  NoDup (map fst gs) -> Permutation gs gs' ->
  entries_from_rdf F prime gs = entries_from_rdf F prime gs' \/
  (exists t t', assert_consistency gs = Err t /\ assert_consistency gs' = Err t' /\
                entries_from_rdf F prime gs = Err t /\ entries_from_rdf F prime gs' = Err t').
Proof. exact graph_order_precise. Qed.
Print Assumptions C03_graph_order_precise.

(* ... and that exception is real: literal equality of outcomes is REFUTED for inconsistent
   datasets (witness: RDF.Order.bad_ds; in Go the error MESSAGE varies between runs, the
   error class does not) *)
Theorem C03_graph_order_same_error_refuted :
  exists F prime gs gs', NoDup (map fst gs) /\ Permutation gs gs' /\
    entries_from_rdf F prime gs <> entries_from_rdf F prime gs'.
Proof. exact graph_order_tag_refuted. Qed.
Print Assumptions C03_graph_order_same_error_refuted.

(* the NoDup hypothesis (a Go map has it by construction) cannot be dropped *)
Theorem C03_graph_order_needs_nodup :
  exists F prime gs gs' es es', Permutation gs gs' /\
    entries_from_rdf F prime gs = Ok es /\ entries_from_rdf F prime gs' = Ok es' /\ es <> es'.
Proof. exact graph_order_needs_nodup. Qed.
Print Assumptions C03_graph_order_needs_nodup.

(* iterGraphsOrdered: sort.Strings returns the same list for every order of the keys *)
Theorem C03_sort_canonical :
  forall l l' : list string, Permutation l l' -> sort_strings l = sort_strings l'.
Proof. exact sort_strings_perm. Qed.
Print Assumptions C03_sort_canonical.

(* (a) the root depends only on the SET of tree entries: any reordering of the insertions
   gives the same root, and success/failure does not depend on the order either *)
Theorem C03_insertion_order :
  forall (hl hm : Z -> Z -> Z) (maxlev : nat) (l1 l2 : list (Z * Z)) (t1 t2 : tree),
  Permutation l1 l2 -> add_all maxlev l1 = Ok t1 -> add_all maxlev l2 = Ok t2 ->
  root hl hm t1 = root hl hm t2.
Proof. exact add_all_perm_root. Qed.
Print Assumptions C03_insertion_order.

Theorem C03_insertion_order_fail :
  forall (maxlev : nat) (l1 l2 : list (Z * Z)),
  Permutation l1 l2 -> is_ok (add_all maxlev l1) = is_ok (add_all maxlev l2).
Proof. exact add_all_perm_fail. Qed.
Print Assumptions C03_insertion_order_fail.

(* the same for AddEntriesToMerkleTree itself (hashing of every entry by the configured
   hasher and MerkleTree.Add's argument checks included), into the default tree or into any
   well-formed tree the caller provides: THE SAME TREE, or failure in both orders *)
Theorem C03_insertion_order_entries :
  forall (H : hasher) (maxlev : nat) (q : Z) (t0 : tree) (es es' : list entry),
  wf maxlev t0 -> Permutation es es' ->
  match add_entries H maxlev q t0 es with
  | Ok t => add_entries H maxlev q t0 es' = Ok t
  | _ => is_ok (add_entries H maxlev q t0 es') = false
  end.
Proof. exact add_entries_perm. Qed.
Print Assumptions C03_insertion_order_entries.

(* (a) determinism of the whole computation from the normalised dataset to the tree: the
   only Go map that is ranged over is ds.Graphs; every iteration order gives the same tree
   (hence the same Root()), or an error in every order *)
Theorem C03_deterministic :
  forall (H : hasher) (maxlev : nat) (q : Z) (F : floats) (mt : option tree) (gs gs' : dataset),
  NoDup (map fst gs) -> Permutation gs gs' ->
  match merklize_tree H maxlev q F mt gs with
  | Ok t => merklize_tree H maxlev q F mt gs' = Ok t
  | Err _ => exists e', merklize_tree H maxlev q F mt gs' = Err e'
  | Panic w => merklize_tree H maxlev q F mt gs' = Panic w
  | Diverge => merklize_tree H maxlev q F mt gs' = Diverge
  end.
Proof. exact merklize_graph_order. Qed.
Print Assumptions C03_deterministic.

(* (d) a caller-provided EMPTY tree (WithMerkleTree) is the default *)
Theorem C03_empty_tree :
  forall (H : hasher) (maxlev : nat) (q : Z) (F : floats) (ds : dataset),
  merklize_tree H maxlev q F (Some E) ds = merklize_tree H maxlev q F None ds.
Proof. exact merklize_empty_tree. Qed.
Print Assumptions C03_empty_tree.

(* ... and a provided tree that already holds leaves yields the canonical tree of the
   union of its leaves and the document's entries (nothing else of it matters) *)
Theorem C03_given_tree :
  forall (H : hasher) (maxlev : nat) (q : Z) (F : floats) (t0 : tree) (ds : dataset) (t : tree),
  wf maxlev t0 -> merklize_tree H maxlev q F (Some t0) ds = Ok t ->
  exists es kvs, entries_from_rdf F (h_prime H) ds = Ok es /\
                 map_res (entry_kv H) es = Ok kvs /\
                 add_all maxlev (map norm kvs ++ leaves t0) = Ok t.
Proof. exact merklize_given_tree. Qed.
Print Assumptions C03_given_tree.

(* ... and the DEPTH (maxLevels) of a provided tree only decides whether merklization
   succeeds, never the tree that is built: whenever two depths both succeed, same tree *)
Theorem C03_tree_depth :
  forall (H : hasher) (m1 m2 : nat) (q : Z) (F : floats) (mt : option tree) (ds : dataset)
         (t1 t2 : tree),
  merklize_tree H m1 q F mt ds = Ok t1 -> merklize_tree H m2 q F mt ds = Ok t2 -> t1 = t2.
Proof. exact merklize_depth_indep. Qed.
Print Assumptions C03_tree_depth.

(* (b) converse.  Two entry lists equal except for the value of ONE entry, whose encodings
   (mkValueMtEntry) differ as tree values: the roots differ, or an explicit hash Collision
   is exhibited (SMT/Sound.v: Collision carries the witness; nothing is assumed of hl hm). *)
Theorem C03_value_binding :
  forall (H : hasher) (maxlev : nat) (q : Z) (hl hm : Z -> Z -> Z)
         (t0 : tree) (pre post : list entry) (e1 e2 : entry) (t1 t2 : tree) (v1 v2 : Z),
  wf maxlev t0 ->
  e_key e1 = e_key e2 ->
  mk_value_entry H (e_val e1) = Ok v1 -> mk_value_entry H (e_val e2) = Ok v2 ->
  hash_of_z v1 <> hash_of_z v2 ->
  add_entries H maxlev q t0 (pre ++ e1 :: post) = Ok t1 ->
  add_entries H maxlev q t0 (pre ++ e2 :: post) = Ok t2 ->
  root hl hm t1 <> root hl hm t2 \/ Collision hl hm.
Proof. exact entry_value_binding. Qed.
Print Assumptions C03_value_binding.

(* with C04: two different in-range integers of one XSD integer type under a hasher whose
   prime is odd and fits 256 bits *)
Theorem C03_value_binding_int :
  forall (H : hasher) (maxlev : nat) (q : Z) (hl hm : Z -> Z -> Z)
         (t0 : tree) (pre post : list entry) (e1 e2 : entry) (t1 t2 : tree)
         (kd : ikind) (z1 z2 : Z),
  wf maxlev t0 -> odd_modulus (h_prime H) -> h_prime H <= 2 ^ 256 ->
  e_key e1 = e_key e2 ->
  e_val e1 = XBig z1 -> e_val e2 = XBig z2 ->
  lo kd (h_prime H) <= z1 <= hi kd (h_prime H) ->
  lo kd (h_prime H) <= z2 <= hi kd (h_prime H) -> z1 <> z2 ->
  add_entries H maxlev q t0 (pre ++ e1 :: post) = Ok t1 ->
  add_entries H maxlev q t0 (pre ++ e2 :: post) = Ok t2 ->
  root hl hm t1 <> root hl hm t2 \/ Collision hl hm.
Proof. exact entry_value_binding_int. Qed.
Print Assumptions C03_value_binding_int.

(* (c), the part of "equivalent number spellings" that is this repository's code:
   EntriesFromRDF reads lexical forms only through convertStringToXSDValue.  Respelling the
   literals by ANY f that preserves the conversion result ("5" -> "05", "5.0", "5e0"; "true"
   -> "1"; another zone offset), every quad keeping its place, leaves the entries (hence the
   root) unchanged.  (What json-gold does to the ORDER of the quads when a lexical form
   changes is outside the model: known findings D21.) *)
Theorem C03_spelling_dataset :
  forall (f : string -> string -> string) (F : floats) (prime : Z),
  (forall dt v, convert F dt (f dt v) prime = convert F dt v prime) ->
  forall ds : dataset,
  entries_from_rdf F prime (relit_ds f ds) = entries_from_rdf F prime ds.
Proof. exact spelling_invariance. Qed.
Print Assumptions C03_spelling_dataset.

(* (c), blank-node labels at the dataset level.  rn_ds rho renames every blank node (subject,
   predicate, object and graph component of every quad) and every graph name by rho; IRIs and
   literals are untouched and every quad keeps its position.  For EVERY dataset: if rho is
   injective, fixes the two reserved graph names and is monotone for the byte-wise order ON THE
   GRAPH NAMES of the dataset (so that iterGraphsOrdered visits corresponding graphs in the
   same order), the outcome of EntriesFromRDF is literally unchanged: paths, values, datatypes,
   order, error tag.  No condition on the order of the other labels is needed (quads are
   addressed by position, children numbered by first appearance, labels otherwise only
   compared for equality). *)
Theorem C03_labels :
  forall (rho : string -> string),
  (forall a b, rho a = rho b -> a = b) ->
  rho default_graph = default_graph -> rho ""%string = ""%string ->
  forall (F : floats) (prime : Z) (ds : dataset),
  (forall a b, In a (map fst ds) -> In b (map fst ds) ->
               str_leb (rho a) (rho b) = str_leb a b) ->
  entries_from_rdf F prime (rn_ds rho ds) = entries_from_rdf F prime ds.
Proof. exact labels_invariance. Qed.
Print Assumptions C03_labels.

(* ... hence the same tree and root *)
Theorem C03_labels_root :
  forall (rho : string -> string),
  (forall a b, rho a = rho b -> a = b) ->
  rho default_graph = default_graph -> rho ""%string = ""%string ->
  forall (H : hasher) (maxlev : nat) (q : Z) (F : floats) (mt : option tree) (ds : dataset),
  (forall a b, In a (map fst ds) -> In b (map fst ds) ->
               str_leb (rho a) (rho b) = str_leb a b) ->
  merklize_tree H maxlev q F mt (rn_ds rho ds) = merklize_tree H maxlev q F mt ds.
Proof. exact labels_tree. Qed.
Print Assumptions C03_labels_root.

(* the monotonicity hypothesis is necessary: an injective renaming that swaps two graph names
   swaps the indices of the two children (witness: RDF.Order.ex_ds, RDF.OrdLabels.rho_swap) *)
Theorem C03_labels_needs_monotone :
  exists rho F prime ds,
    (forall a b, rho a = rho b -> a = b) /\ rho default_graph = default_graph /\
    rho ""%string = ""%string /\
    entries_from_rdf F prime (rn_ds rho ds) <> entries_from_rdf F prime ds.
Proof. exact labels_needs_monotone. Qed.
Print Assumptions C03_labels_needs_monotone.

(* so is injectivity (weakly monotone but merging two graph names) *)
Theorem C03_labels_needs_injective :
  exists rho F prime ds,
    rho default_graph = default_graph /\ rho ""%string = ""%string /\
    (forall a b, In a (map fst ds) -> In b (map fst ds) ->
                 str_leb a b = true -> str_leb (rho a) (rho b) = true) /\
    entries_from_rdf F prime (rn_ds rho ds) <> entries_from_rdf F prime ds.
Proof. exact labels_needs_injective. Qed.
Print Assumptions C03_labels_needs_injective.

(* ---- converse half, the facts behind the Go oracles c03-out-of-range-accepted,
   c03-fraction-accepted, c03-add-error-swallowed, duplicate paths (RDF/OrdFail.v) ---- *)

(* a dataset is accepted only if EVERY literal converts (convertStringToXSDValue) *)
Theorem C03_literals_convert :
  forall (F : floats) (prime : Z) (ds : dataset) (es : list entry) (g : string)
         (qsl : list quad) (q : quad) (v dt : string),
  entries_from_rdf F prime ds = Ok es ->
  lookup_graph ds g = Some qsl -> In q qsl -> qo q = NLit v dt ->
  exists x, convert F dt v prime = Ok x.
Proof. exact literals_convert. Qed.
Print Assumptions C03_literals_convert.

(* integer grammar (Value/Model.v int_from_str, Go's big.Rat.SetString + IsInt): two lexical
   forms of the same integer convert to the same value (so, by C03_spelling_dataset, the
   entries and the root are the same) ... *)
Theorem C03_integer_spelling_invariant :
  forall (F : floats) (dt : string) (k : ikind) (l1 l2 : string) (p : Z),
  classify dt = DInt k -> int_from_str l1 = int_from_str l2 ->
  convert F dt l1 p = convert F dt l2 p.
Proof. exact convert_int_spelling. Qed.
Print Assumptions C03_integer_spelling_invariant.

(* ... and an integer-typed literal ANYWHERE in the dataset that is not an integer (fraction,
   not a number) or lies outside the range of its type under the prime makes EntriesFromRDF
   fail: range-end rejection for all five types, all primes, all datasets.  (Two different
   in-range integers: different roots or a Collision, C03_value_binding_int.) *)
Theorem C03_integer_literal_rejected :
  forall (F : floats) (prime : Z) (ds : dataset) (g : string) (qsl : list quad) (q : quad)
         (v dt : string) (k : ikind),
  odd_modulus prime -> classify dt = DInt k ->
  lookup_graph ds g = Some qsl -> In q qsl -> qo q = NLit v dt ->
  (int_from_str v = None \/
   exists z, int_from_str v = Some z /\ ~ (lo k prime <= z <= hi k prime)) ->
  is_ok (entries_from_rdf F prime ds) = false.
Proof. exact integer_literal_rejected. Qed.
Print Assumptions C03_integer_literal_rejected.

(* a caller-provided tree whose k-th Add fails: AddEntriesToMerkleTree is never Ok, for every
   call position n < k <= n + number of entries *)
Theorem C03_add_error_propagates :
  forall (H : hasher) (maxlev : nat) (q : Z) (es : list entry) (k n : nat) (t : tree),
  (n < k <= n + List.length es)%nat ->
  is_ok (add_entries_ft H maxlev q k n t es) = false.
Proof. exact add_error_propagates. Qed.
Print Assumptions C03_add_error_propagates.

(* hence MerklizeJSONLD fails whenever the failing call is one of the entries' Adds, and is
   the ordinary run when no call fails *)
Theorem C03_merklize_add_error :
  forall (H : hasher) (maxlev : nat) (q : Z) (F : floats) (mt : option tree) (ds : dataset)
         (es : list entry) (k : nat),
  entries_from_rdf F (h_prime H) ds = Ok es -> (1 <= k <= List.length es)%nat ->
  is_ok (merklize_tree_ft H maxlev q k F mt ds) = false.
Proof. exact merklize_ft_fails. Qed.
Print Assumptions C03_merklize_add_error.

Theorem C03_merklize_no_add_error :
  forall (H : hasher) (maxlev : nat) (q : Z) (F : floats) (mt : option tree) (ds : dataset),
  merklize_tree_ft H maxlev q 0 F mt ds = merklize_tree H maxlev q F mt ds.
Proof. exact merklize_ft_never. Qed.
Print Assumptions C03_merklize_no_add_error.

(* a successful insertion implies pairwise different paths; a dataset whose entries contain
   the same path twice is rejected (never merklized with one value silently dropped) *)
Theorem C03_paths_distinct :
  forall (H : hasher) (maxlev : nat) (q : Z) (t0 : tree) (es : list entry) (t : tree),
  wf maxlev t0 -> add_entries H maxlev q t0 es = Ok t -> NoDup (map e_key es).
Proof. exact add_entries_nodup. Qed.
Print Assumptions C03_paths_distinct.

Theorem C03_duplicate_path_rejected :
  forall (H : hasher) (maxlev : nat) (q : Z) (F : floats) (mt : option tree) (ds : dataset)
         (es : list entry),
  match mt with Some t0 => wf maxlev t0 | None => True end ->
  entries_from_rdf F (h_prime H) ds = Ok es -> ~ NoDup (map e_key es) ->
  is_ok (merklize_tree H maxlev q F mt ds) = false.
Proof. exact duplicate_path_rejected. Qed.
Print Assumptions C03_duplicate_path_rejected.
