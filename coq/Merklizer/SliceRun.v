(* Merklizer/SliceRun.v — evaluation of per-run case files for SliceModel.v (C02: Path
   operations do not alias).  A case is a short program over real merklize.Path values and
   caller buffers ([]interface{} with spare capacity): make / sub-slice / overwrite a buffer,
   NewPath(buf...), copy a Path value, Append(buf...), Prepend(buf...); observed: Parts() of
   every path variable and the contents of every buffer at the end.  Elements are small
   positive ints (0 = an untouched cell).  The model runs the FIXED Append / Prepend; the
   growth policy is instantiated with "no spare capacity" — the observations cannot depend on
   it because the fixed operations never append in place into an array somebody else holds
   (SliceTheory.append_fixed_spec / prepend_fixed_spec hold for every policy). *)
From Coq Require Import ZArith List Bool Uint63.
From GSP Require Import Merklizer.SliceModel.
Import ListNotations.
Open Scope list_scope.

Definition n_of (i : int) : nat := Z.to_nat (Uint63.to_Z i).

Inductive rop :=
| RMakeBuf (len cap : int) (elems : list int)
| RSubBuf (b lo hi : int)
| RSetBuf (b i x : int)
| RNewPath (b : int)
| RCopy (p : int)
| RAppend (p b : int)
| RPrepend (p b : int).

Definition op_of (r : rop) : op int :=
  match r with
  | RMakeBuf l c es => OMakeBuf int (n_of l) (n_of c) es
  | RSubBuf b lo hi => OSubBuf int (n_of b) (n_of lo) (n_of hi)
  | RSetBuf b i x => OSetBuf int (n_of b) (n_of i) x
  | RNewPath b => ONewPath int (n_of b)
  | RCopy p => OCopy int (n_of p)
  | RAppend p b => OAppend int (n_of p) (n_of b)
  | RPrepend p b => OPrepend int (n_of p) (n_of b)
  end.

Inductive slcase := mksl (id : int) (ops : list rop) (paths bufs : list (list int)).
Definition sl_id (c : slcase) : int := match c with mksl id _ _ _ => id end.

Fixpoint ints_eqb (a b : list int) : bool :=
  match a, b with
  | [], [] => true
  | x :: a', y :: b' => Uint63.eqb x y && ints_eqb a' b'
  | _, _ => false
  end.
Fixpoint lists_eqb (a b : list (list int)) : bool :=
  match a, b with
  | [], [] => true
  | x :: a', y :: b' => ints_eqb x y && lists_eqb a' b'
  | _, _ => false
  end.

Definition sl_agree (c : slcase) : bool :=
  match c with
  | mksl _ ops paths bufs =>
      match run_ops int 0%uint63 (fun _ => O) (init_state int) (map op_of ops) with
      | Some st =>
          let '(ps, bs) := read_all int st in
          lists_eqb ps paths && lists_eqb bs bufs
      | None => false
      end
  end.

Definition slmismatches (cs : list slcase) : list int :=
  fold_right (fun c acc => if sl_agree c then acc else sl_id c :: acc) [] cs.
