(* Merklizer/BinaryRun.v — evaluation of per-run case files of property C13.

   One case = one merklizer (its entries in EntriesFromRDF order, or the entries of a
   hand-built stream), the recorded primitive calls of the configured and of the
   package default hasher, the recomputed Poseidon node hashes of every tree
   involved, and:
     * the typed content of the REAL gob stream Merklizer.MarshalBinary produced
       (version, root, count, per entry in stream order: key string, parts, entryType
       tag, payload with its Go type, datatype; safeMode; byte length);
     * a list of restores of that stream (hasher option: none / the configured one;
       tree option: none / the original's tree / an empty tree / an unrelated tree)
       with what MerklizerFromBytes returned (error, or Root() and the entry map);
     * single-entry round trips (RDFEntry.MarshalBinary -> UnmarshalBinary on a zero
       receiver or on a receiver made by Options{Hasher}.NewRDFEntry) with the key and
       value hashes of the restored entry.
   The model must produce the same wire (given the map order the implementation
   used), and the same outcome for every restore and round trip. *)
From Coq Require Import ZArith List String Ascii Bool Uint63.
From GSP Require Import Base.Prelude Base.Decode Value.Time Value.Model Value.Run
  RDF.Model RDF.Run SMT.Model Merklizer.Model Merklizer.Binary.
Import ListNotations.
Open Scope list_scope.
Open Scope Z_scope.

(* ---- tables and input conversion (same conventions as Merklizer/Run.v; repeated here so
   that this file depends only on the models) ---- *)
Definition tmiss : Z := -1.
Fixpoint tlook2 (a b : Z) (t : list (Z * Z * Z)) : Z :=
  match t with
  | [] => tmiss
  | (x, y, h) :: r =>
      if Z.eqb x a then (if Z.eqb y b then h else tlook2 a b r) else tlook2 a b r
  end.
Definition raw_ttab := list (limbs * limbs * limbs).
Definition mk_ttab (t : raw_ttab) : list (Z * Z * Z) :=
  map (fun e => (z_of_limbs (fst (fst e)), z_of_limbs (snd (fst e)), z_of_limbs (snd e))) t.
Definition mkrh (p : limbs) (h : list (list limbs * option limbs)) (b : list (string * option limbs))
  : raw_hasher := {| rh_prime := p; rh_hash := h; rh_bytes := b |}.
Definition part_of (p : rpart) : part :=
  match p with RPS s => PStr s | RPI i => PInt (Uint63.to_Z i) end.
Definition entry_of (r : rentry) : entry :=
  let '(k, v, dt) := r in {| e_key := map part_of k; e_val := xval_of v; e_dt := dt |}.
Inductive rkv := RKV (k v : limbs) | RKVErr.      (* KeyValueMtEntries *)
Definition rkv_agree (r : res (Z * Z)) (o : rkv) : bool :=
  match r, o with
  | Ok (k, v), RKV a b => Z.eqb k (z_of_limbs a) && Z.eqb v (z_of_limbs b)
  | Err _, RKVErr => true
  | _, _ => false
  end.
Definition max_levels : nat := 40.

Inductive rwpayload :=
| RWInt64 (z : snum) | RWBool (b : bool) | RWStr (s : string) | RWTime (u n : snum) | RWBig (z : snum).
Definition payload_eqb (a : wpayload) (b : rwpayload) : bool :=
  match a, b with
  | WInt64 x, RWInt64 y => Z.eqb x (z_of_snum y)
  | WBool x, RWBool y => Bool.eqb x y
  | WStr x, RWStr y => String.eqb x y
  | WTime u n, RWTime u' n' => Z.eqb u (z_of_snum u') && Z.eqb n (z_of_snum n')
  | WBig x, RWBig y => Z.eqb x (z_of_snum y)
  | _, _ => false
  end.

(* key, entry version, parts, tag, payload, datatype *)
Inductive rwentry := mkrwe (key : limbs) (ver : int) (parts : list rpart) (tag : int) (pl : rwpayload) (dt : string).
Inductive rwire := mkrw (ver : int) (root : limbs) (n : int) (es : list rwentry) (safe : bool) (inlen : int).

Inductive rtree := RTNone | RTSame | RTEmpty | RTLeaf (k v : limbs).
(* MkValue(v).MtEntry() on the restored merklizer *)
Inductive mkobs := MKOk (z : limbs) | MKErr | MKPanic.
(* per-path observations on the restored merklizer, path built by mz.Options().NewPath:
   Proof (error | existence flag, MtEntry of the returned Value) and JSONLDType *)
Inductive pobs := mkpo (parts : list rpart) (proof_ok : bool) (ex : bool) (vh : option limbs) (dt : option string).
Inductive bobs := BOErr | BOOk (root : limbs) (es : list (limbs * rentry)) (mk : list (raw_xval * mkobs)) (ps : list pobs).
(* cfg: 0 = no WithHasher (package default), 1 = WithHasher(the configured hasher) *)
(* tamper: the stream is re-encoded with one field changed before it is restored:
   0 nothing; 1 version 2; 2 declared count + 1; 3 declared count - 1; 4 declared count -1;
   5 declared count 2^40 *)
(* ep: the restore entry point: 0 MerklizerFromBytes(blob, options cfg/t); 1 zero-value
   (&Merklizer{}).UnmarshalBinary(blob); 2 encoding/gob Decode into a Merklizer;
   3 MerklizerFromBytes(blob) without options *)
Inductive rrestore := mkrr (ep : int) (cfg : int) (t : rtree) (tamper : int) (o : bobs).
(* receiver: 0 = zero RDFEntry, 1 = Options{Hasher: configured}.NewRDFEntry(NewPath(""), "") *)
Inductive rsingle := mkrs (e : rentry) (recv : int) (o : option (rentry * rkv)).

Inductive bcase :=
  mkb (id : int) (cfg : bool) (hc hd : raw_hasher) (thl thm : raw_ttab)
      (es : list rentry) (w : rwire) (rs : list rrestore) (ss : list rsingle).
Definition bc_id (c : bcase) : int := match c with mkb id _ _ _ _ _ _ _ _ _ => id end.

Definition iz (i : int) : Z := Uint63.to_Z i.

(* the permutation the implementation's map iteration used: stored entries in the
   order of the stream's key strings *)
Fixpoint pi_of (keys : list Z) (m : list (Z * rdf_entry)) : option (list (Z * rdf_entry)) :=
  match keys with
  | [] => Some []
  | k :: rest =>
    match assoc Z.eqb k m, pi_of rest m with
    | Some e, Some r => Some ((k, e) :: r)
    | _, _ => None
    end
  end.

Fixpoint nodup_z (l : list Z) : bool :=
  match l with
  | [] => true
  | x :: t => negb (existsb (Z.eqb x) t) && nodup_z t
  end.

Definition rwe_key (e : rwentry) : Z := match e with mkrwe k _ _ _ _ _ => z_of_limbs k end.

Definition wentry_agree (a : Z * entry_wire) (b : rwentry) : bool :=
  match b with
  | mkrwe k ver parts tag pl dt =>
      Z.eqb (fst a) (z_of_limbs k) && Z.eqb (ew_ver (snd a)) (iz ver)
      && parts_eqb (ew_parts (snd a)) parts && Z.eqb (ew_tag (snd a)) (iz tag)
      && payload_eqb (ew_payload (snd a)) pl && String.eqb (ew_dt (snd a)) dt
  end.
Fixpoint wentries_agree (a : list (Z * entry_wire)) (b : list rwentry) : bool :=
  match a, b with
  | [], [] => true
  | x :: a', y :: b' => wentry_agree x y && wentries_agree a' b'
  | _, _ => false
  end.

Definition wire_agree (w : wire) (r : rwire) : bool :=
  match r with
  | mkrw ver root n es safe _ =>
      Z.eqb (w_ver w) (iz ver) && Z.eqb (w_root w) (z_of_limbs root) && Z.eqb (w_n w) (iz n)
      && wentries_agree (w_entries w) es && Bool.eqb (w_safe w) safe
  end.

Definition tamper_wire (code : int) (w : wire) : wire :=
  let c := iz code in
  let setn n := mkwire (w_ver w) (w_src w) (w_compacted w) (w_root w) n (w_entries w) (w_safe w) in
  if c =? 1 then mkwire 2 (w_src w) (w_compacted w) (w_root w) (w_n w) (w_entries w) (w_safe w)
  else if c =? 2 then setn (w_n w + 1)
  else if c =? 3 then setn (w_n w - 1)
  else if c =? 4 then setn (-1)
  else if c =? 5 then setn (2 ^ 40)
  else w.

Definition stored_agree (e : rdf_entry) (r : rentry) : bool :=
  let '(k, v, dt) := r in
  parts_eqb (p_parts (re_key e)) k && xval_eqb (re_val e) (xval_of v) && String.eqb (re_dt e) dt.

Definition restore_agree (T : tparams) (Hd : hasher) (r : res mzx) (o : bobs) : bool :=
  match r, o with
  | Err _, BOErr => true
  | Ok x, BOOk root es mk ps =>
      forallb (fun po : pobs =>
                 match po with
                 | mkpo parts pok e vh dt =>
                     let m := x_mz x in
                     let p := mz_new_path Hd m (map part_of parts) in
                     (match mz_proof T Hd m p, pok with
                      | Ok (pr, ov), true =>
                          Bool.eqb (ex pr) e
                          && match ov, vh with
                             | Some v, Some l => match value_mt_entry v with Ok z => Z.eqb z (z_of_limbs l) | _ => false end
                             | None, None => true
                             | _, _ => false
                             end
                      | Err _, false => true
                      | _, _ => false
                      end)
                     && match mz_jsonld_type Hd m p, dt with
                        | Ok a, Some b => String.eqb a b
                        | Err _, None => true
                        | _, _ => false
                        end
                 end) ps &&
      forallb (fun vo : raw_xval * mkobs =>
                 match (y <- mz_mk_value (x_mz x) (xval_of (fst vo)) ;; value_mt_entry y), snd vo with
                 | Ok z, MKOk l => Z.eqb z (z_of_limbs l)
                 | Err _, MKErr => true
                 | _, _ => false
                 end) mk
      && Z.eqb (mz_root T (x_mz x)) (z_of_limbs root)
      && Nat.eqb (List.length (mz_entries (x_mz x))) (List.length es)
      && forallb (fun ke : limbs * rentry =>
                    match assoc Z.eqb (z_of_limbs (fst ke)) (mz_entries (x_mz x)) with
                    | Some e => stored_agree e (snd ke)
                    | None => false
                    end) es
  | _, _ => false
  end.

Definition single_agree (Hd Hc : hasher) (s : rsingle) : bool :=
  match s with
  | mkrs re recv o =>
      let e0 := entry_of re in
      (* the original entry: built through Options.NewRDFEntry semantics of the harness *)
      let orig := mkentry (mkpath (e_key e0) None) (e_val e0) (e_dt e0) None in
      let receiver :=
        if Uint63.eqb recv 0%uint63 then Ok zero_entry
        else opt_new_rdf_entry Hd (Some Hc) (opt_new_path Hd (Some Hc) [PStr ""%string]) (XStr ""%string) in
      let r := ew <- entry_marshal orig ;; rc <- receiver ;; entry_unmarshal Hd rc ew in
      match r, o with
      | Err _, None => true
      | Ok e', Some (re', kv) => stored_agree e' re' && rkv_agree (entry_kv Hd e') kv
      | _, _ => false
      end
  end.

Definition bcase_agree (q : Z) (c : bcase) : bool :=
  match c with
  | mkb _ cfg hc hd thl thm es w rs ss =>
      let Hd := mk_hasher hd in
      let Hc := mk_hasher hc in
      let tl := mk_ttab thl in
      let tm := mk_ttab thm in
      let T := mktp (fun a b => tlook2 a b tl) (fun a b => tlook2 a b tm) max_levels q in
      let h := hasher_or Hd (if cfg then Some Hc else None) in
      let es' := map (wrap_entry h (Some h)) (map entry_of es) in
      match merklize_from_entries T Hd h None es', w with
      | Ok m, mkrw _ _ _ wes safe inlen =>
          let keys := map rwe_key wes in
          match pi_of keys (mz_entries m) with
          | Some pi =>
              nodup_z keys && Nat.eqb (List.length pi) (List.length (mz_entries m))
              && match marshal T pi (mkmzx m "src"%string "compacted"%string safe) with
                 | Ok w' =>
                     wire_agree w' w
                     && forallb (fun r => match r with
                          | mkrr ep rc rt tc o =>
                              let cfg' := if Uint63.eqb rc 0%uint63 then None else Some Hc in
                              let t0 := match rt with
                                        | RTNone => None
                                        | RTSame => Some (mz_tree m)
                                        | RTEmpty => Some E
                                        | RTLeaf k v => Some (L (z_of_limbs k) (z_of_limbs v))
                                        end in
                              let wt := tamper_wire tc w' in
                              let r : res (restored unit) :=
                                let e := iz ep in
                                if e =? 1 then unmarshal_zero T Hd (fun _ => true) (iz inlen) wt
                                else if e =? 2 then gob_decode T Hd (fun _ => true) (iz inlen) wt
                                else if e =? 3 then from_bytes T Hd (fun _ => true) (mkropts None None None) (iz inlen) wt
                                else from_bytes T Hd (fun _ => true) (mkropts cfg' t0 None) (iz inlen) wt in
                              restore_agree T Hd (x <- r ;; Ok (fst x)) o
                          end) rs
                 | _ => false
                 end
          | None => false
          end
          && forallb (single_agree Hd Hc) ss
      | _, _ => false
      end
  end.

Definition bmismatches (q : limbs) (cs : list bcase) : list int :=
  let qz := z_of_limbs q in
  fold_right (fun c acc => if bcase_agree qz c then acc else bc_id c :: acc) [] cs.
