(* Merklizer/Binary.v — executable model of merklize/binary_encoding.go
   (RDFEntry.MarshalBinary / UnmarshalBinary 50-144, MerklizerFromBytes 148-159,
   Merklizer.MarshalBinary 161-214, Merklizer.UnmarshalBinary 216-324, as of the
   fix commit ca7ff03 which validates the entry count).  No proofs in this file.

   gob is abstracted to a TYPED WIRE VALUE: the sequence of values the encoder is
   given, each with the Go type it was encoded with; decoding a value into a
   variable of another type is an error (that is what gob does for the basic
   types, []byte, *big.Int and time.Time used here).  The byte format itself is
   not modelled.  What the abstraction keeps:
     * the order of the stream (map iteration order of mz.entries is a parameter
       `pi` of `marshal`: the permutation in which `for k, e := range mz.entries`
       happened to run);
     * the entry count is a SEPARATE number in the stream (`w_n`), checked against
       the byte length of the input `inlen` (a parameter of `unmarshal`);
     * the tagged union of entry values: (entryType tag, payload of some Go type);
     * a nested RDFEntry is the result of its own MarshalBinary (gob treats a
       BinaryMarshaler as an opaque blob).
   time.Time is (Unix seconds, nanoseconds) as in Value/Model.v: the zone offset,
   which gob also preserves, is not part of `xval` and is compared on the
   implementation side by the harness.  The compacted document travels as the
   JSON text json.Marshal produced (`x_compacted`); json.Unmarshal's verdict on a
   text is the uninterpreted `json_ok`.  RawValue / ResolveDocPath are functions
   of (compacted, path) and (source document, hasher, loader, path) only, so they
   are represented by these fields. *)
From Coq Require Import ZArith List String Ascii Bool.
From GSP Require Import Base.Prelude Value.Time Value.Model RDF.Model SMT.Model Merklizer.Model.
Import ListNotations.
Open Scope string_scope.
Open Scope list_scope.
Open Scope Z_scope.

(* ---------- the wire ---------- *)
(* Go type of the payload that follows the entryType tag *)
Inductive wpayload :=
| WInt64 (z : Z)
| WBool (b : bool)
| WStr (s : string)
| WTime (unix nanos : Z)
| WBig (z : Z).

Record entry_wire := mkew {
  ew_ver : Z;                    (* rdfEntryEncodingVersion *)
  ew_parts : list part;          (* e.key.parts : []interface{} of string | int *)
  ew_tag : Z;                    (* entryType *)
  ew_payload : wpayload;
  ew_dt : string
}.

Record wire := mkwire {
  w_ver : Z;                     (* mzEncodingVersion *)
  w_src : string;                (* mz.srcDoc *)
  w_compacted : string;          (* json.Marshal(mz.compacted) *)
  w_root : Z;                    (* mz.mt.Root().BigInt() *)
  w_n : Z;                       (* len(mz.entries) as written in the stream *)
  w_entries : list (Z * entry_wire);   (* key string (decimal of the key hash), entry blob *)
  w_safe : bool
}.

Definition entry_version : Z := 1.
Definition mz_version : Z := 1.
Definition tag_int64 : Z := 0.
Definition tag_bool : Z := 1.
Definition tag_string : Z := 2.
Definition tag_time : Z := 3.
Definition tag_bigint : Z := 4.

(* ---------- RDFEntry.MarshalBinary ---------- *)
(* `case int: doEncode(enc, entryTypeInt64, int64(v))`: Go `int` values never reach
   an entry (NewRDFEntry converts them), both are XInt64 here.  Every xval kind
   has a case, so the `default` error is unreachable. *)
Definition entry_marshal (e : rdf_entry) : res entry_wire :=
  let '(tag, pl) :=
    match re_val e with
    | XInt64 z => (tag_int64, WInt64 z)
    | XBool b => (tag_bool, WBool b)
    | XStr s => (tag_string, WStr s)
    | XTime u n => (tag_time, WTime u n)
    | XBig z => (tag_bigint, WBig z)
    end in
  Ok (mkew entry_version (p_parts (re_key e)) tag pl (re_dt e)).

(* doDecode[T]: the payload must have been encoded as a T *)
Definition decode_value (tag : Z) (pl : wpayload) : res xval :=
  if tag =? tag_int64 then match pl with WInt64 z => Ok (XInt64 z) | _ => Err "gob-type" end
  else if tag =? tag_bool then match pl with WBool b => Ok (XBool b) | _ => Err "gob-type" end
  else if tag =? tag_string then match pl with WStr s => Ok (XStr s) | _ => Err "gob-type" end
  else if tag =? tag_time then match pl with WTime u n => Ok (XTime u n) | _ => Err "gob-type" end
  else if tag =? tag_bigint then match pl with WBig z => Ok (XBig z) | _ => Err "gob-type" end
  else Err "entry-type".

(* (e *RDFEntry) UnmarshalBinary on the receiver `recv`:
     e.key.hasher = e.getHasher(); if e.hasher == nil { e.hasher = e.key.hasher }
   then parts, tagged value, datatype *)
Definition entry_unmarshal (Hd : hasher) (recv : rdf_entry) (w : entry_wire) : res rdf_entry :=
  if negb (ew_ver w =? entry_version) then Err "entry-version" else
  let h := hasher_or Hd (re_hasher recv) in
  let eh := match re_hasher recv with Some x => Some x | None => Some h end in
  v <- decode_value (ew_tag w) (ew_payload w) ;;
  Ok (mkentry (mkpath (ew_parts w) (Some h)) v (ew_dt w) eh).

(* `var e RDFEntry` *)
Definition zero_entry : rdf_entry := mkentry (mkpath [] None) (XStr "") "" None.

(* ---------- the Merklizer with the fields Model.mz leaves out ---------- *)
Record mzx := mkmzx {
  x_mz : mz;
  x_src : string;          (* srcDoc *)
  x_compacted : string;    (* the compacted document, as its JSON text *)
  x_safe : bool            (* safeMode *)
}.

Fixpoint marshal_entries (pi : list (Z * rdf_entry)) : res (list (Z * entry_wire)) :=
  match pi with
  | [] => Ok []
  | (k, e) :: rest =>
      ew <- entry_marshal e ;;
      r <- marshal_entries rest ;;
      Ok ((k, ew) :: r)
  end.

(* Merklizer.MarshalBinary; pi = mz.entries in the order the range loop visited it *)
Definition marshal (T : tparams) (pi : list (Z * rdf_entry)) (m : mzx) : res wire :=
  es <- marshal_entries pi ;;
  Ok (mkwire mz_version (x_src m) (x_compacted m) (mz_root T (x_mz m))
             (Z.of_nat (List.length (mz_entries (x_mz m)))) es (x_safe m)).

(* the loop of UnmarshalBinary: receiver built by mz.Options().NewPath("") /
   NewRDFEntry(p, ""), decoded, stored under the key STRING read from the stream *)
Fixpoint unmarshal_entries (Hd : hasher) (h : hasher) (ws : list (Z * entry_wire))
         (acc : list rdf_entry) (m : list (Z * rdf_entry))
  : res (list rdf_entry * list (Z * rdf_entry)) :=
  match ws with
  | [] => Ok (rev acc, m)
  | (k, ew) :: rest =>
      recv <- opt_new_rdf_entry Hd (Some h) (opt_new_path Hd (Some h) [PStr ""]) (XStr "") ;;
      e <- entry_unmarshal Hd recv ew ;;
      unmarshal_entries Hd h rest (e :: acc) (upsert Z.eqb k e m)
  end.

(* MerklizerFromBytes(in, opts...) / (&Merklizer{...}).UnmarshalBinary(in):
   cfg = WithHasher (None: mz.hasher == nil -> defaultHasher), t0 = WithMerkleTree,
   inlen = len(in), json_ok = does json.Unmarshal accept the compacted bytes *)
Definition unmarshal (T : tparams) (Hd : hasher) (json_ok : string -> bool)
           (cfg : option hasher) (t0 : option tree) (inlen : Z) (w : wire) : res mzx :=
  if negb (w_ver w =? mz_version) then Err "mz-version" else
  if negb (json_ok (w_compacted w)) then Err "json" else
  let h := hasher_or Hd cfg in
  let add_to_mt := match t0 with None => true | Some _ => false end in
  let t := match t0 with None => E | Some t => t end in
  if negb add_to_mt && negb (t_root T t =? w_root w) then Err "root-mismatch" else
  if (w_n w <? 0) || (w_n w >? inlen) then Err "entry-count" else
  (* the stream holds exactly the declared number of (key, entry) pairs, or a later
     Decode hits a value of the wrong type / EOF *)
  if negb (w_n w =? Z.of_nat (List.length (w_entries w))) then Err "gob-stream" else
  em <- unmarshal_entries Hd h (w_entries w) [] [] ;;
  t' <- (if add_to_mt then merklize_entries T Hd t (fst em) else Ok t) ;;
  Ok (mkmzx (mkmz (snd em) t' h) (w_src w) (w_compacted w) (w_safe w)).

(* ---------- the restore entry points ---------- *)
(* Options given to a restore: WithHasher, WithMerkleTree, WithDocumentLoader.  The
   document loader is an opaque identity (L): the Merklizer only stores it and hands it to
   the JSON-LD processor (ResolveDocPath, Options()). *)
Record ropts (L : Type) := mkropts {
  o_hasher : option hasher;
  o_tree : option tree;
  o_loader : option L
}.
Arguments mkropts {L} _ _ _.
Arguments o_hasher {L} _.
Arguments o_tree {L} _.
Arguments o_loader {L} _.

(* a restored merklizer together with its documentLoader field (nil = none configured) *)
Definition restored (L : Type) := (mzx * option L)%type.

(* MerklizerFromBytes(in, opts...): `mz := &Merklizer{safeMode: true, hasher: defaultHasher}`,
   options applied on top, then mz.UnmarshalBinary(in); the loader option stays in the object *)
Definition from_bytes {L} (T : tparams) (Hd : hasher) (json_ok : string -> bool) (o : ropts L)
           (inlen : Z) (w : wire) : res (restored L) :=
  let preset := Some (hasher_or Hd (o_hasher o)) in
  x <- unmarshal T Hd json_ok preset (o_tree o) inlen w ;;
  Ok (x, o_loader o).

(* `var mz merklize.Merklizer; mz.UnmarshalBinary(in)`: every field nil; this is also what
   encoding/gob does when it decodes into a Merklizer (it calls UnmarshalBinary on the value
   it was handed) *)
Definition unmarshal_zero {L} (T : tparams) (Hd : hasher) (json_ok : string -> bool)
           (inlen : Z) (w : wire) : res (restored L) :=
  x <- unmarshal T Hd json_ok None None inlen w ;;
  Ok (x, None).
Definition gob_decode {L} := @unmarshal_zero L.

(* Merklizer.getDocumentLoader: the configured loader, else the package default AT THE TIME
   OF THE CALL (ipfs options are not modelled) *)
Definition effective_loader {L} (default_loader : L) (r : restored L) : L :=
  match snd r with Some l => l | None => default_loader end.

(* the observation set of a restored merklizer that does not need the tree theory:
   Hasher(), MkValue(v).MtEntry(), Options() hasher, the loader ResolveDocPath will use *)
Definition r_hasher {L} (r : restored L) : hasher := mz_hasher (x_mz (fst r)).
Definition r_mk_value {L} (r : restored L) (v : xval) : res Z :=
  x <- mz_mk_value (x_mz (fst r)) v ;; value_mt_entry x.
