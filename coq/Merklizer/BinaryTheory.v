(* Merklizer/BinaryTheory.v — theorems of property C13 about Merklizer/Binary.v.

   entry_roundtrip      (C13_entry)      RDFEntry marshal/unmarshal preserves parts, value
                                         (every kind) and datatype; it is the identity on
                                         entries that carry the receiver's hasher
   roundtrip            (C13_roundtrip)  for EVERY map order pi, restoring a marshalled
                                         merklizer with the same hasher yields the entries
                                         in stream order, the SAME tree (insertion-order
                                         independence: SMT.add_all_perm_ok), the same
                                         documents / flag / hasher
   restored_observables                  hence the same Root, Entry, JSONLDType and Proof
                                         results for every path and every default hasher
   restored_member_proof                 and member proofs verify against the same root
   given_tree           (C13_given_tree) with a caller tree: success iff its root is the
                                         recorded one, and then the tree is returned as is
   count_rejected, unmarshal_total (C13_count)  a negative / oversized declared count is an
                                         error; unmarshal never panics or diverges, on any
                                         wire (the only Panic is the modelling artefact
                                         "oracle-miss" of a hasher table)
   No hypothesis about hash functions is used. *)
From Coq Require Import ZArith List String Ascii Bool Lia Permutation.
From GSP Require Import Base.Prelude Value.Time Value.Model RDF.Model SMT.Model SMT.Theory
  Merklizer.Model Merklizer.Theory Merklizer.Binary.
Import ListNotations.
Open Scope Z_scope.

(* ------------------------------------------------------------------ *)
(* single entries                                                       *)
(* ------------------------------------------------------------------ *)
Definition payload_of (v : xval) : Z * wpayload :=
  match v with
  | XInt64 z => (tag_int64, WInt64 z)
  | XBool b => (tag_bool, WBool b)
  | XStr s => (tag_string, WStr s)
  | XTime u n => (tag_time, WTime u n)
  | XBig z => (tag_bigint, WBig z)
  end.
Definition ewire (e : rdf_entry) : entry_wire :=
  mkew entry_version (p_parts (re_key e)) (fst (payload_of (re_val e))) (snd (payload_of (re_val e))) (re_dt e).

Lemma entry_marshal_ok e : entry_marshal e = Ok (ewire e).
Proof. unfold entry_marshal, ewire. destruct (re_val e); reflexivity. Qed.

Lemma decode_payload v : decode_value (fst (payload_of v)) (snd (payload_of v)) = Ok v.
Proof. destruct v; reflexivity. Qed.

(* what a receiver's hasher fields become *)
Definition recv_hasher (Hd : hasher) (recv : rdf_entry) : hasher := hasher_or Hd (re_hasher recv).

Theorem entry_roundtrip_fields Hd recv e :
  exists ew e',
    entry_marshal e = Ok ew /\ entry_unmarshal Hd recv ew = Ok e' /\
    p_parts (re_key e') = p_parts (re_key e) /\ re_val e' = re_val e /\ re_dt e' = re_dt e /\
    p_hasher (re_key e') = Some (recv_hasher Hd recv) /\
    re_hasher e' = Some (recv_hasher Hd recv).
Proof.
  exists (ewire e).
  exists (mkentry (mkpath (p_parts (re_key e)) (Some (recv_hasher Hd recv))) (re_val e) (re_dt e)
                  (Some (recv_hasher Hd recv))).
  split; [apply entry_marshal_ok|]. split; [|repeat split].
  unfold entry_unmarshal, ewire, recv_hasher. cbn [ew_ver ew_tag ew_payload ew_parts ew_dt].
  rewrite Z.eqb_refl. cbn [negb]. rewrite decode_payload. cbn [bind].
  destruct (re_hasher recv); reflexivity.
Qed.

(* identity on entries that carry the receiver's hasher (all entries of a merklizer do) *)
Theorem entry_roundtrip Hd recv e :
  entry_uses (recv_hasher Hd recv) e ->
  exists ew, entry_marshal e = Ok ew /\ entry_unmarshal Hd recv ew = Ok e.
Proof.
  intros (Hh & Hp). exists (ewire e). split; [apply entry_marshal_ok|].
  unfold entry_unmarshal, ewire. cbn [ew_ver ew_tag ew_payload ew_parts ew_dt].
  rewrite Z.eqb_refl. cbn [negb]. rewrite decode_payload. cbn [bind].
  destruct e as [[parts ph] v dt eh]. cbn in *. subst ph eh.
  unfold recv_hasher. destruct (re_hasher recv); reflexivity.
Qed.

(* a tag that does not match the payload's Go type is an error, never a wrong value *)
Theorem decode_value_sound tag pl v :
  decode_value tag pl = Ok v -> (tag, pl) = payload_of v.
Proof.
  unfold decode_value.
  destruct (tag =? tag_int64) eqn:E0; [apply Z.eqb_eq in E0; subst; destruct pl; intros H; inversion H; reflexivity|].
  destruct (tag =? tag_bool) eqn:E1; [apply Z.eqb_eq in E1; subst; destruct pl; intros H; inversion H; reflexivity|].
  destruct (tag =? tag_string) eqn:E2; [apply Z.eqb_eq in E2; subst; destruct pl; intros H; inversion H; reflexivity|].
  destruct (tag =? tag_time) eqn:E3; [apply Z.eqb_eq in E3; subst; destruct pl; intros H; inversion H; reflexivity|].
  destruct (tag =? tag_bigint) eqn:E4; [apply Z.eqb_eq in E4; subst; destruct pl; intros H; inversion H; reflexivity|].
  discriminate.
Qed.

(* ------------------------------------------------------------------ *)
(* the entry list of the stream                                         *)
(* ------------------------------------------------------------------ *)
Definition wire_entries (pi : list (Z * rdf_entry)) : list (Z * entry_wire) :=
  map (fun ke => (fst ke, ewire (snd ke))) pi.

Lemma marshal_entries_ok pi : marshal_entries pi = Ok (wire_entries pi).
Proof.
  induction pi as [|(k, e) pi IH]; [reflexivity|].
  cbn [marshal_entries]. rewrite entry_marshal_ok. cbn [bind]. rewrite IH. reflexivity.
Qed.

Definition upserts (pi : list (Z * rdf_entry)) (m : list (Z * rdf_entry)) : list (Z * rdf_entry) :=
  fold_left (fun m ke => upsert Z.eqb (fst ke) (snd ke) m) pi m.

Lemma unmarshal_entries_ok Hd h : forall pi acc m,
  Forall (fun ke => entry_uses h (snd ke)) pi ->
  unmarshal_entries Hd h (wire_entries pi) acc m = Ok (rev acc ++ map snd pi, upserts pi m).
Proof.
  induction pi as [|(k, e) pi IH]; intros acc m Hall.
  - cbn. rewrite app_nil_r. reflexivity.
  - inversion Hall as [|x xs Hu Hrest]; subst. cbn [snd] in Hu.
    cbn [wire_entries map unmarshal_entries fst snd].
    set (recv := mkentry (mkpath [PStr ""%string] (Some h)) (XStr ""%string) ""%string (Some h)).
    assert (Hrecv : opt_new_rdf_entry Hd (Some h) (opt_new_path Hd (Some h) [PStr ""%string]) (XStr ""%string) = Ok recv)
      by reflexivity.
    rewrite Hrecv. cbn [bind].
    destruct (entry_roundtrip Hd recv e Hu) as (ew & Hm & Hun).
    rewrite entry_marshal_ok in Hm. inversion Hm; subst ew. rewrite Hun. cbn [bind].
    fold (wire_entries pi). rewrite (IH (e :: acc) (upsert Z.eqb k e m) Hrest).
    cbn [rev map snd upserts fold_left fst]. rewrite <- app_assoc. reflexivity.
Qed.

Lemma upserts_fresh : forall pi m,
  NoDup (map fst m ++ map fst pi) -> upserts pi m = m ++ pi.
Proof.
  induction pi as [|(k, e) pi IH]; intros m Hnd; cbn [upserts fold_left fst snd].
  - rewrite app_nil_r. reflexivity.
  - cbn [map fst] in Hnd.
    assert (Hfresh : ~ In k (map fst m)).
    { intros Hin. apply NoDup_remove_2 in Hnd. apply Hnd. apply in_or_app. left. exact Hin. }
    rewrite (upsert_fresh k e m Hfresh). fold (upserts pi (m ++ [(k, e)])).
    rewrite IH.
    + rewrite <- app_assoc. reflexivity.
    + rewrite map_app. cbn [map fst]. rewrite <- app_assoc. exact Hnd.
Qed.

(* ------------------------------------------------------------------ *)
(* rebuilding the tree from the entries in another order                *)
(* ------------------------------------------------------------------ *)
Definition kv_of (Hd : hasher) (e : rdf_entry) : Z * Z :=
  match entry_kv Hd e with Ok kv => kv | _ => (0, 0) end.

Lemma forall2_kv_of T Hd : forall es kvs,
  Forall2 (kv_ok T Hd) es kvs ->
  kvs = map (kv_of Hd) es /\ Forall (fun e => kv_ok T Hd e (kv_of Hd e)) es.
Proof.
  induction 1 as [|e kv es kvs Hok HF IH]; [split; [reflexivity | constructor]|].
  destruct IH as (-> & Hall).
  assert (Hkv : kv_of Hd e = kv) by (unfold kv_of; destruct Hok as (-> & _); reflexivity).
  split; [cbn; rewrite Hkv; reflexivity|]. constructor; [rewrite Hkv; exact Hok | exact Hall].
Qed.

Lemma merklize_entries_complete T Hd : forall es t t',
  Forall (fun e => kv_ok T Hd e (kv_of Hd e)) es ->
  add_list (tp_maxlev T) t (map norm (map (kv_of Hd) es)) = Ok t' ->
  merklize_entries T Hd t es = Ok t'.
Proof.
  induction es as [|e es IH]; intros t t' Hall Hadd.
  - cbn in *. exact Hadd.
  - inversion Hall as [|x xs Hok Hrest]; subst.
    destruct Hok as (Hkv & A & B & C & D).
    cbn [map add_list] in Hadd. unfold norm at 1 in Hadd. cbn [fst snd] in Hadd.
    destruct (add (tp_maxlev T) t 0 (hash_of_z (fst (kv_of Hd e))) (hash_of_z (snd (kv_of Hd e))))
      as [t1| | |] eqn:Ha; cbn [bind] in Hadd; try discriminate.
    cbn [merklize_entries]. rewrite Hkv. cbn [bind].
    unfold t_add, mt_add.
    apply Z.leb_gt in A, B, C, D. rewrite A, B, Ha. cbn [bind]. rewrite C, D. cbn [orb].
    apply IH; assumption.
Qed.

Lemma kv_ok_indep T h Hd Hd' e :
  entry_uses h e -> kv_ok T Hd e (kv_of Hd e) -> kv_ok T Hd' e (kv_of Hd' e).
Proof.
  intros Hu Hok. unfold kv_of in *. rewrite <- (entry_kv_indep h e Hd Hd' Hu).
  destruct Hok as (Hkv & rest). unfold kv_ok. rewrite <- (entry_kv_indep h e Hd Hd' Hu). auto.
Qed.

Lemma kv_of_indep h Hd Hd' e : entry_uses h e -> kv_of Hd e = kv_of Hd' e.
Proof. intros Hu. unfold kv_of. rewrite (entry_kv_indep h e Hd Hd' Hu). reflexivity. Qed.

Lemma map_ext_forall {A B} (f g : A -> B) (l : list A) :
  Forall (fun a => f a = g a) l -> map f l = map g l.
Proof. induction 1 as [|a l Ha _ IH]; cbn; [reflexivity | rewrite Ha, IH; reflexivity]. Qed.

(* the heart of the round trip: the same entries inserted in ANY order, under any
   package-default hasher, give the same tree *)
Theorem rebuild_same_tree T Hd Hd' h es es' t :
  Forall (entry_uses h) es ->
  merklize_entries T Hd E es = Ok t ->
  Permutation es' es ->
  merklize_entries T Hd' E es' = Ok t.
Proof.
  intros Huse Hmk Hperm.
  destruct (merklize_entries_spec T Hd es E t Hmk) as (kvs & HF & Hadd).
  destruct (forall2_kv_of T Hd es kvs HF) as (-> & Hall).
  assert (Huse' : Forall (entry_uses h) es').
  { eapply Permutation_Forall; [apply Permutation_sym; exact Hperm | exact Huse]. }
  assert (Hall' : Forall (fun e => kv_ok T Hd' e (kv_of Hd' e)) es').
  { assert (Hboth : Forall (fun e => entry_uses h e /\ kv_ok T Hd e (kv_of Hd e)) es).
    { rewrite Forall_forall in *. intros e Hin. split; auto. }
    assert (Hboth' : Forall (fun e => entry_uses h e /\ kv_ok T Hd e (kv_of Hd e)) es').
    { eapply Permutation_Forall; [apply Permutation_sym; exact Hperm | exact Hboth]. }
    rewrite Forall_forall in *. intros e Hin. destruct (Hboth' e Hin) as (Hu & Hok).
    eapply kv_ok_indep; eassumption. }
  apply merklize_entries_complete; [exact Hall'|].
  assert (Hmap : map (kv_of Hd') es' = map (kv_of Hd) es').
  { apply map_ext_forall. rewrite Forall_forall in *. intros e Hin. symmetry.
    apply (kv_of_indep h). auto. }
  rewrite Hmap.
  change (add_all (tp_maxlev T) (map norm (map (kv_of Hd) es')) = Ok t).
  apply (add_all_perm_ok (tp_maxlev T) (map norm (map (kv_of Hd) es))).
  - apply Permutation_map. apply Permutation_map. apply Permutation_sym. exact Hperm.
  - exact Hadd.
Qed.

(* ------------------------------------------------------------------ *)
(* the round trip                                                       *)
(* ------------------------------------------------------------------ *)
Section RoundTrip.
  Variable T : tparams.
  Variable json_ok : string -> bool.
  Variables (Hd : hasher) (h : hasher) (es : list rdf_entry) (m0 : mz).
  Hypothesis Huse : Forall (entry_uses h) es.
  Hypothesis Hm0 : merklize_from_entries T Hd h None es = Ok m0.

  Lemma m0_facts :
    mz_wf T m0 /\ mz_hasher m0 = h /\ map snd (mz_entries m0) = es /\
    merklize_entries T Hd E es = Ok (mz_tree m0).
  Proof.
    destruct (merklize_from_entries_wf T Hd h es m0 Huse Hm0) as (Hwf & Hh & Hsnd).
    split; [exact Hwf|]. split; [exact Hh|]. split; [exact Hsnd|].
    pose proof Hm0 as Hm. unfold merklize_from_entries in Hm.
    apply bind_ok in Hm. destruct Hm as (mp & _ & H1).
    apply bind_ok in H1. destruct H1 as (t & Hmk & H2). inversion H2 as [H3]. cbn [mz_tree]. exact Hmk.
  Qed.

  Variable pi : list (Z * rdf_entry).
  Hypothesis Hpi : Permutation pi (mz_entries m0).

  Lemma pi_facts :
    NoDup (map fst pi) /\ Forall (fun ke => entry_uses h (snd ke)) pi /\
    Permutation (map snd pi) es /\ List.length pi = List.length (mz_entries m0).
  Proof.
    destruct m0_facts as (Hwf & Hh & Hsnd & _).
    repeat split.
    - eapply Permutation_NoDup; [apply Permutation_map; apply Permutation_sym; exact Hpi|].
      exact (wf_nodup _ _ Hwf).
    - assert (Hall : Forall (fun ke => entry_uses h (snd ke)) (mz_entries m0)).
      { rewrite Forall_forall. intros (k, e) Hin. cbn [snd].
        destruct (wf_member _ _ Hwf k e Hin) as (Hu & _). rewrite Hh in Hu. exact Hu. }
      eapply Permutation_Forall; [apply Permutation_sym; exact Hpi | exact Hall].
    - rewrite <- Hsnd. apply Permutation_map. exact Hpi.
    - apply Permutation_length. exact Hpi.
  Qed.

  Variables (src comp : string) (safe : bool).

  (* MarshalBinary never fails, whatever the map order *)
  Lemma marshal_ok :
    marshal T pi (mkmzx m0 src comp safe) =
    Ok (mkwire mz_version src comp (mz_root T m0) (Z.of_nat (List.length (mz_entries m0)))
               (wire_entries pi) safe).
  Proof. unfold marshal. rewrite marshal_entries_ok. reflexivity. Qed.

  Variables (Hd' : hasher) (cfg : option hasher) (inlen : Z).
  Hypothesis Hcfg : hasher_or Hd' cfg = h.                       (* restored with the same hasher *)
  Hypothesis Hjson : json_ok comp = true.                         (* json.Unmarshal(json.Marshal x) succeeds *)
  Hypothesis Hlen : Z.of_nat (List.length (mz_entries m0)) <= inlen.   (* every entry takes >= 1 byte *)

  Theorem roundtrip :
    exists w, marshal T pi (mkmzx m0 src comp safe) = Ok w /\
      unmarshal T Hd' json_ok cfg None inlen w =
      Ok (mkmzx (mkmz pi (mz_tree m0) h) src comp safe).
  Proof.
    eexists. split; [apply marshal_ok|].
    destruct m0_facts as (Hwf & Hh & Hsnd & Hmk).
    destruct pi_facts as (Hnd & Hall & Hperm & Hlenpi).
    unfold unmarshal. cbn [w_ver w_compacted w_root w_n w_entries w_src w_safe].
    unfold mz_version. rewrite Z.eqb_refl. cbn [negb]. rewrite Hjson. cbn [negb andb].
    rewrite Hcfg.
    assert (Hn0 : (Z.of_nat (List.length (mz_entries m0)) <? 0) = false) by (apply Z.ltb_ge; lia).
    assert (Hn1 : (Z.of_nat (List.length (mz_entries m0)) >? inlen) = false).
    { destruct (Z.of_nat (List.length (mz_entries m0)) >? inlen) eqn:E; [|reflexivity].
      apply Z.gtb_lt in E. lia. }
    rewrite Hn0, Hn1. cbn [orb].
    unfold wire_entries at 1. rewrite map_length, Hlenpi, Z.eqb_refl. cbn [negb].
    rewrite (unmarshal_entries_ok Hd' h pi [] [] Hall). cbn [bind rev app fst snd].
    rewrite (upserts_fresh pi []) by (cbn; exact Hnd). cbn [app].
    rewrite (rebuild_same_tree T Hd Hd' h es (map snd pi) (mz_tree m0) Huse Hmk Hperm).
    reflexivity.
  Qed.

  (* with a caller-provided tree: success iff its root is the recorded one; the tree
     is handed back untouched *)
  Theorem given_tree t0 :
    exists w, marshal T pi (mkmzx m0 src comp safe) = Ok w /\
      unmarshal T Hd' json_ok cfg (Some t0) inlen w =
      (if t_root T t0 =? mz_root T m0
       then Ok (mkmzx (mkmz pi t0 h) src comp safe)
       else Err "root-mismatch"%string).
  Proof.
    eexists. split; [apply marshal_ok|].
    destruct pi_facts as (Hnd & Hall & Hperm & Hlenpi).
    unfold unmarshal. cbn [w_ver w_compacted w_root w_n w_entries w_src w_safe].
    unfold mz_version. rewrite Z.eqb_refl. cbn [negb]. rewrite Hjson. cbn [negb andb].
    rewrite Hcfg.
    destruct (t_root T t0 =? mz_root T m0); cbn [negb]; [|reflexivity].
    assert (Hn0 : (Z.of_nat (List.length (mz_entries m0)) <? 0) = false) by (apply Z.ltb_ge; lia).
    assert (Hn1 : (Z.of_nat (List.length (mz_entries m0)) >? inlen) = false).
    { destruct (Z.of_nat (List.length (mz_entries m0)) >? inlen) eqn:E; [|reflexivity].
      apply Z.gtb_lt in E. lia. }
    rewrite Hn0, Hn1. cbn [orb].
    unfold wire_entries at 1. rewrite map_length, Hlenpi, Z.eqb_refl. cbn [negb].
    rewrite (unmarshal_entries_ok Hd' h pi [] [] Hall). cbn [bind rev app fst snd].
    rewrite (upserts_fresh pi []) by (cbn; exact Hnd). reflexivity.
  Qed.

  (* ---- observational equality of the restored merklizer ---- *)
  Let m1 : mz := mkmz pi (mz_tree m0) h.

  Lemma assoc_perm k : assoc Z.eqb k pi = assoc Z.eqb k (mz_entries m0).
  Proof.
    destruct m0_facts as (Hwf & _). destruct pi_facts as (Hnd & _).
    destruct (assoc Z.eqb k (mz_entries m0)) as [e|] eqn:Ha.
    - apply assoc_in in Ha. apply assoc_nodup; [exact Hnd|].
      eapply Permutation_in; [apply Permutation_sym; exact Hpi | exact Ha].
    - apply assoc_none. intros Hin.
      assert (Hin0 : In k (map fst (mz_entries m0))).
      { eapply Permutation_in; [apply Permutation_map; exact Hpi | exact Hin]. }
      apply in_map_iff in Hin0. destruct Hin0 as ((k', e) & Hk & Hin0). cbn in Hk. subst k'.
      rewrite (assoc_nodup k _ e (wf_nodup _ _ Hwf) Hin0) in Ha. discriminate.
  Qed.

  Theorem restored_observables :
    mz_root T m1 = mz_root T m0 /\ mz_hasher m1 = mz_hasher m0 /\
    Permutation (mz_entries m1) (mz_entries m0) /\
    forall Hd'' p,
      mz_entry Hd'' m1 p = mz_entry Hd'' m0 p /\
      mz_jsonld_type Hd'' m1 p = mz_jsonld_type Hd'' m0 p /\
      mz_proof T Hd'' m1 p = mz_proof T Hd'' m0 p.
  Proof.
    destruct m0_facts as (Hwf & Hh & _).
    split; [reflexivity|]. split; [symmetry; exact Hh|]. split; [exact Hpi|].
    intros Hd'' p.
    assert (He : mz_entry Hd'' m1 p = mz_entry Hd'' m0 p).
    { unfold mz_entry. destruct (path_mt_entry Hd'' p) as [k| | |]; cbn [bind]; try reflexivity.
      unfold m1. cbn [mz_entries]. rewrite assoc_perm. reflexivity. }
    split; [exact He|]. split.
    - unfold mz_jsonld_type. rewrite He. reflexivity.
    - unfold mz_proof. destruct (path_mt_entry Hd'' p) as [k| | |]; cbn [bind]; try reflexivity.
      unfold m1. cbn [mz_tree mz_entries mz_hasher].
      destruct (t_gen T (mz_tree m0) k) as [pv| | |]; cbn [bind]; try reflexivity.
      rewrite assoc_perm, Hh. reflexivity.
  Qed.

  (* the restored merklizer's member proofs verify against the (same) root *)
  Theorem restored_member_proof Hd'' p k e :
    path_mt_entry Hd'' p = Ok k -> In (k, e) (mz_entries m0) ->
    exists pr vh,
      mz_proof T Hd'' m1 p = Ok (pr, Some (mkvalue (re_val e) (Some h))) /\ ex pr = true /\
      value_mt_entry (mkvalue (re_val e) (Some h)) = Ok vh /\
      verify_proof (tp_hl T) (tp_hm T) (mz_root T m1) pr (hash_of_z k) (hash_of_z vh) = true.
  Proof.
    intros Hp Hin. destruct m0_facts as (Hwf & Hh & _).
    destruct (proof_of_member T m0 (mz_wf_in _ _ Hwf) Hd'' p k e Hp Hin) as (pr & vh & A & B & C & D & _).
    cbv zeta in A, C. rewrite Hh in A, C.
    destruct restored_observables as (_ & _ & _ & Hobs). destruct (Hobs Hd'' p) as (_ & _ & Hpr).
    exists pr, vh. rewrite Hpr. repeat split; auto.
  Qed.
End RoundTrip.

(* the same for a merklizer built from a normalised dataset (MerklizeJSONLD):
   EntriesFromRDFWithHasher gives every entry the merklizer's hasher *)
Theorem roundtrip_document T json_ok Hd F cfg0 ds m0 :
  merklize_ds T Hd F cfg0 None ds = Ok m0 ->
  forall pi, Permutation pi (mz_entries m0) ->
  forall src comp safe Hd' cfg inlen,
  hasher_or Hd' cfg = hasher_or Hd cfg0 ->
  json_ok comp = true ->
  Z.of_nat (List.length (mz_entries m0)) <= inlen ->
  exists w, marshal T pi (mkmzx m0 src comp safe) = Ok w /\
    unmarshal T Hd' json_ok cfg None inlen w =
    Ok (mkmzx (mkmz pi (mz_tree m0) (hasher_or Hd cfg0)) src comp safe) /\
    mz_root T (mkmz pi (mz_tree m0) (hasher_or Hd cfg0)) = mz_root T m0 /\
    Permutation (mz_entries (mkmz pi (mz_tree m0) (hasher_or Hd cfg0))) (mz_entries m0) /\
    forall Hd'' p,
      mz_entry Hd'' (mkmz pi (mz_tree m0) (hasher_or Hd cfg0)) p = mz_entry Hd'' m0 p /\
      mz_jsonld_type Hd'' (mkmz pi (mz_tree m0) (hasher_or Hd cfg0)) p = mz_jsonld_type Hd'' m0 p /\
      mz_proof T Hd'' (mkmz pi (mz_tree m0) (hasher_or Hd cfg0)) p = mz_proof T Hd'' m0 p.
Proof.
  intros Hmz pi Hpi src comp safe Hd' cfg inlen Hcfg Hjson Hlen.
  unfold merklize_ds, entries_from_rdf_h in Hmz. cbn [hasher_or] in Hmz.
  apply bind_ok in Hmz. destruct Hmz as (es & Hes & Hm0).
  apply bind_ok in Hes. destruct Hes as (es0 & _ & Hes). inversion Hes; subst es; clear Hes.
  set (h := hasher_or Hd cfg0) in *.
  pose proof (wrap_entry_uses h es0) as Huse.
  destruct (roundtrip T json_ok Hd h _ m0 Huse Hm0 pi Hpi src comp safe Hd' cfg inlen Hcfg Hjson Hlen)
    as (w & Hw & Hun).
  destruct (restored_observables T Hd h _ m0 Huse Hm0 pi Hpi) as (A & _ & B & C).
  exists w. repeat split; auto; apply C.
Qed.

(* ------------------------------------------------------------------ *)
(* declared count; totality                                             *)
(* ------------------------------------------------------------------ *)
Theorem count_rejected T Hd json_ok cfg t0 inlen w :
  w_ver w = mz_version -> json_ok (w_compacted w) = true ->
  (match t0 with None => True | Some t => t_root T t = w_root w end) ->
  w_n w < 0 \/ w_n w > inlen ->
  unmarshal T Hd json_ok cfg t0 inlen w = Err "entry-count"%string.
Proof.
  intros Hv Hj Ht Hn. unfold unmarshal. rewrite Hv, Z.eqb_refl, Hj. cbn [negb].
  assert (Hroot : (negb (match t0 with None => true | Some _ => false end) &&
                   negb (t_root T (match t0 with None => E | Some t => t end) =? w_root w)) = false).
  { destruct t0 as [t|]; [|reflexivity]. rewrite Ht, Z.eqb_refl. reflexivity. }
  rewrite Hroot.
  assert (Hc : ((w_n w <? 0) || (w_n w >? inlen)) = true).
  { apply orb_true_iff. destruct Hn as [Hn | Hn]; [left; apply Z.ltb_lt | right; apply Z.gtb_lt]; lia. }
  rewrite Hc. reflexivity.
Qed.

(* outcomes that are neither Diverge nor a Panic other than an oracle-table miss *)
Definition mild {A} (r : res A) : Prop := (forall s, r = Panic s -> s = miss_tag) /\ r <> Diverge.

Lemma mild_ok {A} (a : A) : mild (Ok a).
Proof. split; [intros s H; discriminate | discriminate]. Qed.
Lemma mild_err {A} tag : mild (@Err A tag).
Proof. split; [intros s H; discriminate | discriminate]. Qed.
Lemma mild_bind {A B} (r : res A) (f : A -> res B) :
  mild r -> (forall a, mild (f a)) -> mild (bind r f).
Proof.
  intros (Hp & Hd) Hf. destruct r as [a|t|s|]; cbn [bind].
  - apply Hf.
  - apply mild_err.
  - split; [intros s' H; inversion H; subst; apply Hp; reflexivity | discriminate].
  - congruence.
Qed.
Lemma mild_of_ores o tag : mild (of_ores o tag).
Proof.
  destruct o; cbn; [apply mild_ok | apply mild_err|].
  split; [intros s H; inversion H; reflexivity | discriminate].
Qed.

Lemma mild_hash_parts H : forall ps, mild (hash_parts H ps).
Proof.
  induction ps as [|[s|i] ps IH]; cbn [hash_parts].
  - apply mild_ok.
  - apply mild_bind; [apply mild_of_ores|]. intros z. apply mild_bind; [exact IH|]. intros r. apply mild_ok.
  - apply mild_bind; [exact IH|]. intros r. apply mild_ok.
Qed.

Lemma mild_mk_value_entry H v : mild (mk_value_entry H v).
Proof.
  destruct v; cbn [mk_value_entry].
  - apply mild_of_ores.
  - unfold mk_value_bigint. destruct (_ >=? _); [apply mild_err|].
    destruct (_ <? 0); [destruct (_ <? _); [apply mild_err | apply mild_ok] | apply mild_ok].
  - unfold mk_value_int. destruct (0 <=? z); apply mild_ok.
  - apply mild_ok.
  - apply mild_of_ores.
Qed.

Lemma mild_entry_kv Hd e : mild (entry_kv Hd e).
Proof.
  unfold entry_kv, entry_key_mt, entry_val_mt, path_mt_entry, hash_path.
  apply mild_bind.
  - apply mild_bind; [apply mild_hash_parts|]. intros ks. apply mild_of_ores.
  - intros k. apply mild_bind; [apply mild_mk_value_entry|]. intros v. apply mild_ok.
Qed.

Lemma mild_t_add T t k v : mild (t_add T t k v).
Proof.
  unfold t_add, mt_add. destruct (_ <=? k); [apply mild_err|]. destruct (_ <=? v); [apply mild_err|].
  destruct (add_cases (tp_maxlev T) t 0 (hash_of_z k) (hash_of_z v)) as [(t' & ->)|[->| ->]]; cbn [bind].
  - destruct (_ || _); [apply mild_err | apply mild_ok].
  - apply mild_err.
  - apply mild_err.
Qed.

Lemma mild_merklize_entries T Hd : forall es t, mild (merklize_entries T Hd t es).
Proof.
  induction es as [|e es IH]; intros t; cbn [merklize_entries]; [apply mild_ok|].
  apply mild_bind; [apply mild_entry_kv|]. intros kv.
  apply mild_bind; [apply mild_t_add|]. intros t'. apply IH.
Qed.

Lemma mild_decode_value tag pl : mild (decode_value tag pl).
Proof.
  unfold decode_value.
  repeat (match goal with |- context [if ?c then _ else _] => destruct c end;
          [destruct pl; first [apply mild_ok | apply mild_err]|]).
  apply mild_err.
Qed.

Lemma mild_entry_unmarshal Hd recv ew : mild (entry_unmarshal Hd recv ew).
Proof.
  unfold entry_unmarshal. destruct (negb _); [apply mild_err|].
  apply mild_bind; [apply mild_decode_value|]. intros v. apply mild_ok.
Qed.

Lemma mild_unmarshal_entries Hd h : forall ws acc m, mild (unmarshal_entries Hd h ws acc m).
Proof.
  induction ws as [|(k, ew) ws IH]; intros acc m; cbn [unmarshal_entries]; [apply mild_ok|].
  apply mild_bind; [cbn; apply mild_ok|]. intros recv.
  apply mild_bind; [apply mild_entry_unmarshal|]. intros e. apply IH.
Qed.

(* UnmarshalBinary is total on EVERY wire value, hasher option, tree option and length *)
Theorem unmarshal_total T Hd json_ok cfg t0 inlen w :
  mild (unmarshal T Hd json_ok cfg t0 inlen w).
Proof.
  unfold unmarshal.
  destruct (negb (w_ver w =? mz_version)); [apply mild_err|].
  destruct (negb (json_ok (w_compacted w))); [apply mild_err|].
  destruct (_ && _); [apply mild_err|].
  destruct (_ || _); [apply mild_err|].
  destruct (negb (w_n w =? _)); [apply mild_err|].
  apply mild_bind; [apply mild_unmarshal_entries|]. intros em.
  apply mild_bind.
  - destruct t0; [apply mild_ok | apply mild_merklize_entries].
  - intros t'. apply mild_ok.
Qed.

(* ------------------------------------------------------------------ *)
(* restore entry points                                                 *)
(* ------------------------------------------------------------------ *)
(* UnmarshalBinary depends on the hasher option only through the EFFECTIVE hasher *)
Lemma unmarshal_cfg_ext T Hd json_ok cfg cfg' t0 inlen w :
  hasher_or Hd cfg = hasher_or Hd cfg' ->
  unmarshal T Hd json_ok cfg t0 inlen w = unmarshal T Hd json_ok cfg' t0 inlen w.
Proof. intros H. unfold unmarshal. rewrite H. reflexivity. Qed.

(* MerklizerFromBytes (hasher preset to the package default, options on top) is
   UnmarshalBinary on a Merklizer carrying just the options: presetting the default and
   defaulting a nil hasher inside UnmarshalBinary are the same thing *)
Theorem from_bytes_unmarshal {L} T Hd json_ok (o : ropts L) inlen w :
  from_bytes T Hd json_ok o inlen w =
  (x <- unmarshal T Hd json_ok (o_hasher o) (o_tree o) inlen w ;; Ok (x, o_loader o)).
Proof.
  unfold from_bytes.
  rewrite (unmarshal_cfg_ext T Hd json_ok (Some (hasher_or Hd (o_hasher o))) (o_hasher o)); [reflexivity|].
  destruct (o_hasher o); reflexivity.
Qed.

(* all option-less entry points coincide: MerklizerFromBytes(blob), zero-value
   UnmarshalBinary, gob decoding *)
Theorem entry_points_agree {L} T Hd json_ok inlen w :
  @from_bytes L T Hd json_ok (mkropts None None None) inlen w = unmarshal_zero T Hd json_ok inlen w /\
  @gob_decode L T Hd json_ok inlen w = unmarshal_zero T Hd json_ok inlen w.
Proof. split; [apply from_bytes_unmarshal | reflexivity]. Qed.

Theorem entry_points_agree_all (L : Type) T Hd json_ok inlen w :
  (forall o : ropts L,
     from_bytes T Hd json_ok o inlen w =
     (x <- unmarshal T Hd json_ok (o_hasher o) (o_tree o) inlen w ;; Ok (x, o_loader o))) /\
  @from_bytes L T Hd json_ok (mkropts None None None) inlen w = unmarshal_zero T Hd json_ok inlen w /\
  @gob_decode L T Hd json_ok inlen w = unmarshal_zero T Hd json_ok inlen w.
Proof.
  split; [intros o; apply from_bytes_unmarshal|]. apply entry_points_agree.
Qed.

(* the hasher of a restored merklizer is never nil: it is the option, else the package
   default at restore time; MkValue therefore always hashes with it *)
Theorem hasher_defaulted T Hd json_ok cfg t0 inlen w x :
  unmarshal T Hd json_ok cfg t0 inlen w = Ok x ->
  mz_hasher (x_mz x) = hasher_or Hd cfg /\
  forall v, (y <- mz_mk_value (x_mz x) v ;; value_mt_entry y) = mk_value_entry (hasher_or Hd cfg) v.
Proof.
  unfold unmarshal. intros H.
  destruct (negb (w_ver w =? mz_version)); [discriminate|].
  destruct (negb (json_ok (w_compacted w))); [discriminate|].
  destruct (_ && _); [discriminate|].
  destruct (_ || _); [discriminate|].
  destruct (negb (w_n w =? _)); [discriminate|].
  apply bind_ok in H. destruct H as (em & _ & H).
  apply bind_ok in H. destruct H as (t' & _ & H). inversion H; subst x. cbn [x_mz mz_hasher].
  split; reflexivity.
Qed.

Theorem restored_hasher_and_loader {L} T Hd json_ok (o : ropts L) inlen w r :
  from_bytes T Hd json_ok o inlen w = Ok r ->
  r_hasher r = hasher_or Hd (o_hasher o) /\
  (forall v, r_mk_value r v = mk_value_entry (hasher_or Hd (o_hasher o)) v) /\
  snd r = o_loader o /\
  forall dflt, effective_loader dflt r = match o_loader o with Some l => l | None => dflt end.
Proof.
  rewrite from_bytes_unmarshal. intros H.
  apply bind_ok in H. destruct H as (x & Hx & H). inversion H; subst r.
  destruct (hasher_defaulted _ _ _ _ _ _ _ _ Hx) as (Hh & Hmk).
  unfold r_hasher, r_mk_value, effective_loader. cbn [fst snd].
  repeat split; auto.
Qed.

(* seeded variants.  C13-j: UnmarshalBinary no longer defaults a nil hasher, so the field
   stays what the options left there; C13-f: the restore forgets the loader option *)
Definition mk_value_variant_j (field : option hasher) (v : xval) : res Z :=
  value_mt_entry (mkvalue v field).
Theorem variant_j_refuted :
  exists v, mk_value_variant_j None v = Panic "nil-hasher"%string.
Proof. exists (XStr "x"%string). reflexivity. Qed.

Definition from_bytes_variant_f {L} (T : tparams) (Hd : hasher) (json_ok : string -> bool) (o : ropts L)
           (inlen : Z) (w : wire) : res (restored L) :=
  x <- unmarshal T Hd json_ok (o_hasher o) (o_tree o) inlen w ;; Ok (x, None).
Theorem variant_f_refuted :
  exists (o : ropts nat) (dflt : nat), forall T Hd json_ok inlen w r r',
    from_bytes T Hd json_ok o inlen w = Ok r ->
    from_bytes_variant_f T Hd json_ok o inlen w = Ok r' ->
    effective_loader dflt r <> effective_loader dflt r'.
Proof.
  exists (mkropts None None (Some 1%nat)), 0%nat. intros T Hd json_ok inlen w r r' H H'.
  destruct (restored_hasher_and_loader _ _ _ _ _ _ _ H) as (_ & _ & _ & Hl). rewrite Hl. cbn [o_loader].
  unfold from_bytes_variant_f in H'. apply bind_ok in H'. destruct H' as (x & _ & H'). inversion H'; subst r'.
  unfold effective_loader. cbn [snd]. discriminate.
Qed.

(* the round trip through EVERY entry point *)
Theorem roundtrip_entry_points {L} T json_ok Hd h es m0 :
  Forall (entry_uses h) es ->
  merklize_from_entries T Hd h None es = Ok m0 ->
  forall pi, Permutation pi (mz_entries m0) ->
  forall src comp safe Hd' cfg (l : option L) inlen,
  hasher_or Hd' cfg = h ->
  json_ok comp = true ->
  Z.of_nat (List.length (mz_entries m0)) <= inlen ->
  exists w, marshal T pi (mkmzx m0 src comp safe) = Ok w /\
    let X := mkmzx (mkmz pi (mz_tree m0) h) src comp safe in
    from_bytes T Hd' json_ok (mkropts cfg None l) inlen w = Ok (X, l) /\
    (cfg = None ->
       @unmarshal_zero L T Hd' json_ok inlen w = Ok (X, None) /\
       @gob_decode L T Hd' json_ok inlen w = Ok (X, None) /\
       @from_bytes L T Hd' json_ok (mkropts None None None) inlen w = Ok (X, None)).
Proof.
  intros Huse Hm0 pi Hpi src comp safe Hd' cfg l inlen Hcfg Hjson Hlen.
  destruct (roundtrip T json_ok Hd h es m0 Huse Hm0 pi Hpi src comp safe Hd' cfg inlen Hcfg Hjson Hlen)
    as (w & Hw & Hun).
  exists w. split; [exact Hw|]. cbv zeta. split.
  - rewrite from_bytes_unmarshal. cbn [o_hasher o_tree o_loader]. rewrite Hun. reflexivity.
  - intros ->. unfold gob_decode, unmarshal_zero. rewrite from_bytes_unmarshal.
    cbn [o_hasher o_tree o_loader]. rewrite Hun. cbn [bind]. repeat split.
Qed.

(* ------------------------------------------------------------------ *)
(* non-vacuity                                                          *)
(* ------------------------------------------------------------------ *)
Definition exH : hasher :=
  {| h_prime := 21888242871839275222246405745257275088548364400416034343698204186575808495617;
     h_hash := fun l => OV (fold_left (fun a x => a * 31 + x + 5) l 17);
     h_bytes := fun s => OV (Z.of_nat (String.length s) * 1000 + 3) |}.
Definition exT : tparams := mktp (fun k v => 3 * k + 5 * v + 1) (fun l r => 7 * l + 11 * r + 2) 40 (2 ^ 256).
Definition exE (parts : list part) (v : xval) (dt : string) : rdf_entry :=
  mkentry (mkpath parts (Some exH)) v dt (Some exH).
Definition ex_entries : list rdf_entry :=
  [ exE [PStr "a"] (XBig (-5)) xsd_integer;
    exE [PStr "bb"; PInt 0] (XBool true) xsd_boolean;
    exE [PStr "bb"; PInt 1] (XStr "hello") xsd_string;
    exE [PStr "ccc"] (XTime 1591005600 123456789) xsd_datetime;
    exE [PStr "dddd"] (XInt64 (-42)) "" ]%string.

Example ex_uses : Forall (entry_uses exH) ex_entries.
Proof. repeat constructor. Qed.

Example ex_roundtrip_all_kinds_reversed_order :
  match merklize_from_entries exT exH exH None ex_entries with
  | Ok m0 =>
      match marshal exT (rev (mz_entries m0)) (mkmzx m0 "{}" "{}" true) with
      | Ok w =>
          match unmarshal exT exH (fun _ => true) (Some exH) None 1000 w with
          | Ok x => (mz_root exT (x_mz x) =? mz_root exT m0)
                    && (Nat.eqb (List.length (mz_entries (x_mz x))) 5)
                    && negb (mz_root exT m0 =? 0)
          | _ => false
          end
      | _ => false
      end
  | _ => false
  end = true.
Proof. vm_compute. reflexivity. Qed.

Example ex_given_tree_and_count :
  match merklize_from_entries exT exH exH None ex_entries with
  | Ok m0 =>
      match marshal exT (mz_entries m0) (mkmzx m0 "{}" "{}" true) with
      | Ok w =>
          (is_ok (unmarshal exT exH (fun _ => true) (Some exH) (Some (mz_tree m0)) 1000 w))
          && (is_err (unmarshal exT exH (fun _ => true) (Some exH) (Some E) 1000 w))
          && (is_err (unmarshal exT exH (fun _ => true) (Some exH) (Some (L 1 2)) 1000 w))
          && (is_err (unmarshal exT exH (fun _ => true) (Some exH) None 4 w))
          && (is_err (unmarshal exT exH (fun _ => true) (Some exH) None 1000
                        (mkwire (w_ver w) (w_src w) (w_compacted w) (w_root w) (-1) (w_entries w) (w_safe w))))
          && (is_err (unmarshal exT exH (fun _ => true) (Some exH) None 1000
                        (mkwire (w_ver w) (w_src w) (w_compacted w) (w_root w) (2 ^ 40) (w_entries w) (w_safe w))))
      | _ => false
      end
  | _ => false
  end = true.
Proof. vm_compute. reflexivity. Qed.

(* an int64 written under the bool tag is rejected, not misread *)
Example ex_wrong_tag : decode_value tag_bool (WInt64 1) = Err "gob-type"%string.
Proof. reflexivity. Qed.
