(* Merklizer/Run.v — evaluation of per-run case files for the merklizer model
   (C02, C16).  No proofs here.

   A case is one merklizer: the entries EntriesFromRDFWithHasher produced for the
   document (read through the verif hook), whether a hasher was configured
   (WithHasher), the recorded PRIMITIVE calls of the configured hasher and of the
   package default hasher (Hash / HashBytes tables; the default hasher's table is
   what a recording hasher installed with merklize.SetHasher saw), the recorded
   primitive Poseidon calls of the tree (hl k v = Poseidon[k;v;1],
   hm l r = Poseidon[l;r], recomputed by the harness from every node's children),
   what MerklizeJSONLD did (error / Root()), and a script of caller steps with
   everything the implementation returned for each.

   The model (Merklizer.Model.merklize_from_entries, Merklizer.Script.run_step)
   decides which primitive calls it makes; a table miss is `Panic "oracle-miss"`
   for the hashers and the non-field value -1 for the tree hashes, both of which
   can only surface as a disagreement. *)
From Coq Require Import ZArith List String Ascii Bool Uint63.
From GSP Require Import Base.Prelude Base.Decode Value.Time Value.Model Value.Run
  RDF.Model RDF.Run SMT.Model Merklizer.Model Merklizer.Script.
Import ListNotations.
Open Scope list_scope.
Open Scope Z_scope.

(* ---- tree hash tables ---- *)
Definition tmiss : Z := -1.
Fixpoint tlook2 (a b : Z) (t : list (Z * Z * Z)) : Z :=
  match t with
  | [] => tmiss
  | (x, y, h) :: r =>
      if Z.eqb x a then (if Z.eqb y b then h else tlook2 a b r) else tlook2 a b r
  end.
Definition raw_ttab := list (limbs * limbs * limbs).
Definition mk_ttab (t : raw_ttab) : list (Z * Z * Z) :=
  map (fun e => (z_of_limbs (fst (fst e)), z_of_limbs (snd (fst e)), z_of_limbs (snd e))) t.

(* constructor function for hasher tables (record syntax per case is slow to parse) *)
Definition mkrh (p : limbs) (h : list (list limbs * option limbs)) (b : list (string * option limbs))
  : raw_hasher := {| rh_prime := p; rh_hash := h; rh_bytes := b |}.

Definition mkrf (p : list (string * option limbs)) (c : list (limbs * string))
           (i : list (snum * limbs)) : raw_floats :=
  {| rf_parse := p; rf_canon := c; rf_of_int := i |}.

(* ---- inputs ---- *)
Definition part_of (p : rpart) : part :=
  match p with RPS s => PStr s | RPI i => PInt (Uint63.to_Z i) end.
Definition entry_of (r : rentry) : entry :=
  let '(k, v, dt) := r in {| e_key := map part_of k; e_val := xval_of v; e_dt := dt |}.
Definition pkind_of (i : int) : pkind :=
  if Uint63.eqb i 0%uint63 then PKOptions
  else if Uint63.eqb i 1%uint63 then PKPackage
  else if Uint63.eqb i 2%uint63 then PKFromContext
  else if Uint63.eqb i 3%uint63 then PKFieldFromContext
  else if Uint63.eqb i 4%uint63 then PKFromDocument
  else PKResolveDoc.

(* ---- what the implementation returned ---- *)
Inductive rz := RZ (z : limbs) | RZErr.          (* a (big.Int, error) pair *)
Inductive rkv := RKV (k v : limbs) | RKVErr.      (* KeyValueMtEntries *)

Inductive rproof :=
| RPErr
| RPOk (ex : bool) (sibs : list limbs) (aux : option (limbs * limbs))
       (val : option (raw_xval * rz))     (* Value returned: content and its MtEntry() *)
       (key : limbs)                      (* path.MtEntry() *)
       (verify : bool).                   (* merkletree.VerifyProof(mz.Root(), proof, key, valueHash|0) *)

Inductive rstep :=
| RRoot (root : limbs)
| RPathKey (pk : int) (parts : list rpart) (o : rz)
| RProof (pk : int) (parts : list rpart) (o : rproof)
| REntry (pk : int) (parts : list rpart) (o : option (raw_xval * string * rkv))   (* None = error *)
| RType (pk : int) (parts : list rpart) (o : option string)
| RNewEntry (parts : list rpart) (v : raw_xval) (o : option rkv)                  (* None = NewRDFEntry error *)
| RValue (v : raw_xval) (o : rz).

Definition step_of (r : rstep) : step :=
  match r with
  | RRoot _ => SRoot
  | RPathKey pk ps _ => SPathKey (pkind_of pk) (map part_of ps)
  | RProof pk ps _ => SProof (pkind_of pk) (map part_of ps)
  | REntry pk ps _ => SEntry (pkind_of pk) (map part_of ps)
  | RType pk ps _ => SType (pkind_of pk) (map part_of ps)
  | RNewEntry ps v _ => SNewEntry (map part_of ps) (xval_of v)
  | RValue v _ => SValue (xval_of v)
  end.

Definition rz_agree (r : res Z) (o : rz) : bool :=
  match r, o with
  | Ok z, RZ l => Z.eqb z (z_of_limbs l)
  | Err _, RZErr => true
  | _, _ => false
  end.
Definition rkv_agree (r : res (Z * Z)) (o : rkv) : bool :=
  match r, o with
  | Ok (k, v), RKV a b => Z.eqb k (z_of_limbs a) && Z.eqb v (z_of_limbs b)
  | Err _, RKVErr => true
  | _, _ => false
  end.
Definition aux_agree (a : option (Z * Z)) (b : option (limbs * limbs)) : bool :=
  match a, b with
  | None, None => true
  | Some (x, y), Some (x', y') => Z.eqb x (z_of_limbs x') && Z.eqb y (z_of_limbs y')
  | _, _ => false
  end.
Fixpoint sibs_agree (a : list Z) (b : list limbs) : bool :=
  match a, b with
  | [], [] => true
  | x :: a', y :: b' => Z.eqb x (z_of_limbs y) && sibs_agree a' b'
  | _, _ => false
  end.
Definition val_agree (a : option (xval * res Z)) (b : option (raw_xval * rz)) : bool :=
  match a, b with
  | None, None => true
  | Some (x, h), Some (x', h') => xval_eqb x (xval_of x') && rz_agree h h'
  | _, _ => false
  end.

Definition obs_agree (o : obs) (r : rstep) : bool :=
  match o, r with
  | ORoot z, RRoot l => Z.eqb z (z_of_limbs l)
  | OKey k, RPathKey _ _ l => rz_agree k l
  | OProof (Err _), RProof _ _ RPErr => true
  | OProof (Ok (pr, vi, k, Ok vf)), RProof _ _ (RPOk e ss a v key vf') =>
      Bool.eqb (ex pr) e && sibs_agree (sibs pr) ss && aux_agree (aux pr) a
      && val_agree vi v && Z.eqb k (z_of_limbs key) && Bool.eqb vf vf'
  | OEntry (Err _), REntry _ _ None => true
  | OEntry (Ok (v, dt, kv)), REntry _ _ (Some (v', dt', kv')) =>
      xval_eqb v (xval_of v') && String.eqb dt dt' && rkv_agree kv kv'
  | OType (Err _), RType _ _ None => true
  | OType (Ok s), RType _ _ (Some s') => String.eqb s s'
  | ONewEntry (Err _), RNewEntry _ _ None => true
  | ONewEntry (Ok kv), RNewEntry _ _ (Some kv') => rkv_agree kv kv'
  | OVal z, RValue _ l => rz_agree z l
  | _, _ => false
  end.

Inductive rmerk := RMOk (root : limbs) | RMErr.

(* steps of a scenario on a caller-provided tree shared by several merklizers *)
Inductive rgstep :=
| RGMerk (cfg : bool) (es : list rentry) (ok : bool)   (* MerklizeJSONLD(.., WithMerkleTree(shared)) *)
| RGAdd (k v : snum) (ok : bool)                       (* tree.Add on the shared tree *)
| RGOn (i : int) (r : rstep).                          (* a caller step on merklizer number i *)

Inductive mcase :=
| mkm (id : int) (cfg : bool) (hc hd : raw_hasher) (thl thm : raw_ttab)
      (es : list rentry) (mo : rmerk) (steps : list rstep)
  (* dataset-level case: the normalised dataset json-gold produced instead of the
     entries, so that value conversion under the hasher's prime is inside the model *)
| mkd (id : int) (cfg : bool) (hc hd : raw_hasher) (thl thm : raw_ttab)
      (rf : raw_floats) (ds : dataset) (mo : rmerk) (steps : list rstep)
  (* shared-tree scenario: the tree is script state (Script.grun) *)
| mks (id : int) (hc hd : raw_hasher) (thl thm : raw_ttab) (gsteps : list rgstep)
  (* SetHasher history: MerklizeJSONLD WITHOUT WithHasher while the package default is hd,
     then merklize.SetHasher(hd2), then the caller steps (Script.run with D 0 = hd, D i = hd2) *)
| mkh (id : int) (hd hd2 : raw_hasher) (thl thm : raw_ttab)
      (es : list rentry) (mo : rmerk) (steps : list rstep)
  (* standalone merklize.HashValueWithHasher(h, dt, v): Value.Model.value_to_hash under h *)
| mkv (id : int) (h : raw_hasher) (rf : raw_floats) (dt : string) (v : raw_goval) (o : vobs).
Definition mc_id (c : mcase) : int :=
  match c with
  | mkm id _ _ _ _ _ _ _ _ => id | mkd id _ _ _ _ _ _ _ _ _ => id | mks id _ _ _ _ _ => id
  | mkh id _ _ _ _ _ _ _ => id | mkv id _ _ _ _ _ => id
  end.

Fixpoint gagree (T : tparams) (Hd Hc : hasher) (st : shared) (gs : list rgstep) : bool :=
  match gs with
  | [] => true
  | RGMerk cfg es ok :: rest =>
      let '(st', o) := gstep_run T Hd st
                         (GMerklize (if cfg then Some Hc else None) (map entry_of es)) in
      match o with
      | GOMerk (Ok _) => ok
      | GOMerk (Err _) => negb ok
      | _ => false
      end && gagree T Hd Hc st' rest
  | RGAdd k v ok :: rest =>
      let '(st', o) := gstep_run T Hd st (GAdd (z_of_snum k) (z_of_snum v)) in
      match o with
      | GOAdd (Ok _) => ok
      | GOAdd (Err _) => negb ok
      | _ => false
      end && gagree T Hd Hc st' rest
  | RGOn i r :: rest =>
      let '(st', o) := gstep_run T Hd st (GOn (nat_of_int i) (step_of r)) in
      match o with
      | GOStep (Some ob) => obs_agree ob r
      | _ => false
      end && gagree T Hd Hc st' rest
  end.

Definition max_levels : nat := 40.

Definition case_agree (q : Z) (c : mcase) : bool :=
  match c with
  | mkm _ cfg hc hd thl thm es mo steps =>
      let Hd := mk_hasher hd in
      let tl := mk_ttab thl in
      let tm := mk_ttab thm in
      let T := mktp (fun a b => tlook2 a b tl) (fun a b => tlook2 a b tm) max_levels q in
      (* hasher_or Hd (WithHasher?) ; entries as EntriesFromRDFWithHasher(ds, mz.hasher) wraps them *)
      let h := hasher_or Hd (if cfg then Some (mk_hasher hc) else None) in
      let es' := map (wrap_entry h (Some h)) (map entry_of es) in
      match merklize_from_entries T Hd h None es', mo with
      | Ok m, RMOk root =>
          Z.eqb (mz_root T m) (z_of_limbs root)
          && forallb (fun r => obs_agree (run_step T Hd m (step_of r)) r) steps
      | Err _, RMErr => true
      | _, _ => false
      end
  | mkd _ cfg hc hd thl thm rf ds mo steps =>
      let Hd := mk_hasher hd in
      let tl := mk_ttab thl in
      let tm := mk_ttab thm in
      let T := mktp (fun a b => tlook2 a b tl) (fun a b => tlook2 a b tm) max_levels q in
      match merklize_ds T Hd (mk_floats rf) (if cfg then Some (mk_hasher hc) else None) None ds, mo with
      | Ok m, RMOk root =>
          Z.eqb (mz_root T m) (z_of_limbs root)
          && forallb (fun r => obs_agree (run_step T Hd m (step_of r)) r) steps
      | Err _, RMErr => true
      | _, _ => false
      end
  | mks _ hc hd thl thm gsteps =>
      let tl := mk_ttab thl in
      let tm := mk_ttab thm in
      let T := mktp (fun a b => tlook2 a b tl) (fun a b => tlook2 a b tm) max_levels q in
      gagree T (mk_hasher hd) (mk_hasher hc) shared_init gsteps
  | mkh _ hd hd2 thl thm es mo steps =>
      let Hd := mk_hasher hd in
      let Hd2 := mk_hasher hd2 in
      let tl := mk_ttab thl in
      let tm := mk_ttab thm in
      let T := mktp (fun a b => tlook2 a b tl) (fun a b => tlook2 a b tm) max_levels q in
      let es' := map (wrap_entry Hd (Some Hd)) (map entry_of es) in
      match merklize_from_entries T Hd Hd None es', mo with
      | Ok m, RMOk root =>
          Z.eqb (mz_root T m) (z_of_limbs root)
          && forallb (fun r => obs_agree (run_step T Hd2 m (step_of r)) r) steps
      | Err _, RMErr => true
      | _, _ => false
      end
  | mkv _ h rf dt v o =>
      Value.Run.agree (value_to_hash (mk_hasher h) (mk_floats rf) dt (goval_of v)) o
  end.

Definition mmismatches (q : limbs) (cs : list mcase) : list int :=
  let qz := z_of_limbs q in
  fold_right (fun c acc => if case_agree qz c then acc else mc_id c :: acc) [] cs.
