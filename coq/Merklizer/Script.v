(* Merklizer/Script.v — caller scripts over a merklizer and what they observe
   (used by the C16 non-interference theorem and by the per-run correspondence
   of C02 / C16).  Executable, NO proofs.

   A script is what a caller does after MerklizeJSONLD(doc, WithHasher(Hc)?):
   a list of steps, each of which builds its Path / RDFEntry / Value through
   the merklizer's own Options (`mz.Options()`, `mz.MkValue`) or — `PKPackage`
   — through the package-level constructor `merklize.NewPath`, which by design
   stores the package default hasher.

   The value of the package variable defaultHasher may change between calls
   (merklize.SetHasher): `D i` is its value while call number i runs (call 0 is
   MerklizeJSONLD). *)
From Coq Require Import ZArith List String Bool.
From GSP Require Import Base.Prelude Value.Time Value.Model RDF.Model SMT.Model Merklizer.Model.
Import ListNotations.
Open Scope list_scope.
Open Scope Z_scope.

(* Every path-producing API reachable from Options / the merklizer.  The resolvers'
   `parts` are the output of the JSON-LD term / document resolution, which never
   hashes; what the model states about them is WHICH HASHER the returned Path stores. *)
Inductive pkind :=
| PKOptions            (* mz.Options().NewPath(parts...) *)
| PKPackage            (* merklize.NewPath(parts...) *)
| PKFromContext        (* mz.Options().PathFromContext(ctxBytes, "Type.field")          merklize.go 85-89 *)
| PKFieldFromContext   (* mz.Options().FieldPathFromContext(ctxBytes, type, fieldPath)  merklize.go 91-112 *)
| PKFromDocument       (* mz.Options().NewPathFromDocument(docBytes, "a.b.0")           merklize.go 137-157 *)
| PKResolveDoc.        (* mz.ResolveDocPath("a.b.0")                                     merklize.go 1714-1728 *)

(* Options.PathFromContext: `out := Path{hasher: o.getHasher()}` *)
Definition opt_path_from_context (Hd : hasher) (o : option hasher) (parts : list part) : path :=
  mkpath parts (Some (opt_hasher Hd o)).
(* Options.FieldPathFromContext: `Path{parts: fullPath.parts[len(typePath.parts):], hasher: o.getHasher()}` *)
Definition opt_field_path_from_context (Hd : hasher) (o : option hasher) (parts : list part) : path :=
  mkpath parts (Some (opt_hasher Hd o)).
(* Options.NewPathFromDocument: `Path{parts: pathPartsI, hasher: o.getHasher()}` *)
Definition opt_new_path_from_document (Hd : hasher) (o : option hasher) (parts : list part) : path :=
  mkpath parts (Some (opt_hasher Hd o)).
(* Merklizer.ResolveDocPath: `opts := Options{Hasher: mz.hasher}; if opts.Hasher == nil
   { opts.Hasher = defaultHasher }; opts.NewPathFromDocument(mz.srcDoc, path)` *)
Definition mz_resolve_doc_path (Hd : hasher) (m : mz) (parts : list part) : path :=
  opt_new_path_from_document Hd (Some (hasher_or Hd (Some (mz_hasher m)))) parts.

Inductive step :=
| SRoot                                   (* mz.Root() *)
| SPathKey (pk : pkind) (parts : list part)   (* path.MtEntry() *)
| SProof (pk : pkind) (parts : list part)     (* mz.Proof(path), value.MtEntry(), path.MtEntry(),
                                                 merkletree.VerifyProof(mz.Root(), proof, key, valueHash) *)
| SEntry (pk : pkind) (parts : list part)     (* mz.Entry(path), then entry.KeyValueMtEntries() *)
| SType (pk : pkind) (parts : list part)      (* mz.JSONLDType(path) *)
| SNewEntry (parts : list part) (v : xval)    (* o := mz.Options(); p := o.NewPath(parts...);
                                                 e := o.NewRDFEntry(p, v); e.KeyValueMtEntries() *)
| SValue (v : xval).                          (* mz.MkValue(v).MtEntry() *)

Inductive obs :=
| ORoot (r : Z)
| OKey (r : res Z)
| OProof (r : res (proof * option (xval * res Z) * Z * res bool))
    (* proof; Value (content, its MtEntry) iff one was returned; the key the caller
       computes from the path; result of VerifyProof against Root() with that key and
       the Value's hash (0 when there is no Value) *)
| OEntry (r : res (xval * string * res (Z * Z)))
| OType (r : res string)
| ONewEntry (r : res (res (Z * Z)))
| OVal (r : res Z).

Definition mk_path (Hd : hasher) (m : mz) (pk : pkind) (parts : list part) : path :=
  match pk with
  | PKOptions => mz_new_path Hd m parts
  | PKPackage => new_path Hd parts
  | PKFromContext => opt_path_from_context Hd (mz_options m) parts
  | PKFieldFromContext => opt_field_path_from_context Hd (mz_options m) parts
  | PKFromDocument => opt_new_path_from_document Hd (mz_options m) parts
  | PKResolveDoc => mz_resolve_doc_path Hd m parts
  end.

Definition proof_step (T : tparams) (Hd : hasher) (m : mz) (p : path)
  : res (proof * option (xval * res Z) * Z * res bool) :=
  pv <- mz_proof T Hd m p ;;
  k <- path_mt_entry Hd p ;;
  let pr := fst pv in
  let vi := match snd pv with
            | Some v => Some (v_val v, value_mt_entry v)
            | None => None
            end in
  let vh := match snd pv with
            | Some v => value_mt_entry v
            | None => Ok 0
            end in
  Ok (pr, vi, k, (h <- vh ;; t_verify T (mz_root T m) pr k h)).

Definition run_step (T : tparams) (Hd : hasher) (m : mz) (s : step) : obs :=
  match s with
  | SRoot => ORoot (mz_root T m)
  | SPathKey pk parts => OKey (path_mt_entry Hd (mk_path Hd m pk parts))
  | SProof pk parts => OProof (proof_step T Hd m (mk_path Hd m pk parts))
  | SEntry pk parts =>
      OEntry (e <- mz_entry Hd m (mk_path Hd m pk parts) ;;
              Ok (re_val e, re_dt e, entry_kv Hd e))
  | SType pk parts => OType (mz_jsonld_type Hd m (mk_path Hd m pk parts))
  | SNewEntry parts v =>
      ONewEntry (e <- opt_new_rdf_entry Hd (mz_options m) (mz_new_path Hd m parts) v ;;
                 Ok (entry_kv Hd e))
  | SValue v => OVal (x <- mz_mk_value m v ;; value_mt_entry x)
  end.

(* step number i runs while defaultHasher = D i *)
Fixpoint run_steps (T : tparams) (D : nat -> hasher) (i : nat) (m : mz) (ss : list step)
  : list obs :=
  match ss with
  | [] => []
  | s :: rest => run_step T (D i) m s :: run_steps T D (S i) m rest
  end.

(* MerklizeJSONLD (from the normalised dataset on, fresh tree) with WithHasher(cfg),
   then the script *)
Definition run (T : tparams) (F : floats) (D : nat -> hasher) (cfg : option hasher)
           (ds : dataset) (ss : list step) : res (list obs) :=
  m <- merklize_ds T (D O) F cfg None ds ;;
  Ok (run_steps T D 1%nat m ss).

(* scripts whose every Path comes from the merklizer's Options *)
Definition via_options (s : step) : bool :=
  match s with
  | SPathKey PKPackage _ | SProof PKPackage _ | SEntry PKPackage _ | SType PKPackage _ => false
  | _ => true
  end.

(* ------------------------------------------------------------------ *)
(* a caller-provided tree shared by several merklizers                  *)
(* ------------------------------------------------------------------ *)
(* With WithMerkleTree(mt) the Merklizer holds a REFERENCE to a tree that the caller
   (and other merklizers) keep mutating.  The tree is therefore part of the script
   state, not of the merklizer value: `with_tree m t` is merklizer m as it reads
   the shared tree whose current content is t (Root(), Proof read it live). *)
Definition with_tree (m : mz) (t : tree) : mz := mkmz (mz_entries m) t (mz_hasher m).

Definition res_unit {A} (r : res A) : res unit :=
  match r with Ok _ => Ok tt | Err x => Err x | Panic w => Panic w | Diverge => Diverge end.

(* AddEntriesToMerkleTree on a shared tree: a failing run keeps the leaves already added *)
Fixpoint merklize_entries_st (T : tparams) (Hd : hasher) (t : tree) (es : list rdf_entry)
  : tree * res unit :=
  match es with
  | [] => (t, Ok tt)
  | e :: rest =>
      match (kv <- entry_kv Hd e ;; t_add T t (fst kv) (snd kv)) with
      | Ok t' => merklize_entries_st T Hd t' rest
      | r => (t, res_unit r)
      end
  end.

Record shared := mksh { sh_tree : tree; sh_mzs : list mz }.

Inductive gstep :=
| GMerklize (cfg : option hasher) (es : list entry)
    (* MerklizeJSONLD(doc, WithMerkleTree(shared), WithHasher(cfg)?) where es is what
       EntriesFromRDFWithHasher yields for doc; on success the merklizer gets the next number *)
| GAdd (k v : Z)                 (* somebody calls tree.Add(k, v) on the shared tree *)
| GOn (i : nat) (s : step).      (* a caller step on merklizer number i *)

Inductive gobs :=
| GOMerk (r : res unit)
| GOAdd (r : res unit)
| GOStep (o : option obs).       (* None: there is no merklizer number i *)

Definition gstep_run (T : tparams) (Hd : hasher) (st : shared) (g : gstep) : shared * gobs :=
  match g with
  | GMerklize cfg es =>
      let h := hasher_or Hd cfg in
      let es' := map (wrap_entry h (Some h)) es in
      match index_entries Hd es' [] with
      | Ok mp =>
          let '(t', r) := merklize_entries_st T Hd (sh_tree st) es' in
          match r with
          | Ok _ => (mksh t' (sh_mzs st ++ [mkmz mp t' h]), GOMerk (Ok tt))
          | _ => (mksh t' (sh_mzs st), GOMerk r)
          end
      | r => (st, GOMerk (res_unit r))
      end
  | GAdd k v =>
      match t_add T (sh_tree st) k v with
      | Ok t' => (mksh t' (sh_mzs st), GOAdd (Ok tt))
      | r => (st, GOAdd (res_unit r))
      end
  | GOn i s =>
      match nth_error (sh_mzs st) i with
      | Some m => (st, GOStep (Some (run_step T Hd (with_tree m (sh_tree st)) s)))
      | None => (st, GOStep None)
      end
  end.

Fixpoint grun (T : tparams) (D : nat -> hasher) (i : nat) (st : shared) (gs : list gstep)
  : shared * list gobs :=
  match gs with
  | [] => (st, [])
  | g :: rest =>
      let '(st1, o) := gstep_run T (D i) st g in
      let '(st2, os) := grun T D (S i) st1 rest in
      (st2, o :: os)
  end.

Definition shared_init : shared := mksh E [].

(* ------------------------------------------------------------------ *)
(* Path.Append / Path.Prepend (merklize.go 489-514)                     *)
(* ------------------------------------------------------------------ *)
(* parts are typed (string | int), so the type check of the Go loop always passes;
   `p.parts = append(p.parts, parts...)` / `append(parts, p.parts...)`: the hasher
   field is untouched, the new parts keep their order, and the result is a fresh
   value (Path is copied by value; the model has no aliasing by construction, the
   harness checks that copies mutated independently do not affect each other) *)
Definition path_append (p : path) (parts : list part) : path :=
  mkpath (p_parts p ++ parts) (p_hasher p).
Definition path_prepend (p : path) (parts : list part) : path :=
  mkpath (parts ++ p_parts p) (p_hasher p).
