(* Merklizer/Script.v — caller scripts over a merklizer and what they observe
   (used by the C16 non-interference theorem and by the per-run correspondence
   of C02 / C16).  Executable, NO proofs.

   A script is what a caller does after MerklizeJSONLD(doc, WithHasher(Hc)?):
   a list of steps, each of which builds its Path / RDFEntry / Value through
   the merklizer's own Options (`mz.Options()`, `mz.MkValue`) or — `PKPackage`
   — through the package-level constructor `merklize.NewPath`, which by design
   stores the package default hasher.

   The value of the package variable defaultHasher may change between calls
   (merklize.SetHasher): `D i` is its value while call number i runs (call 0 is
   MerklizeJSONLD). *)
From Coq Require Import ZArith List String Bool.
From GSP Require Import Base.Prelude Value.Time Value.Model RDF.Model SMT.Model Merklizer.Model.
Import ListNotations.
Open Scope list_scope.
Open Scope Z_scope.

Inductive pkind :=
| PKOptions      (* mz.Options().NewPath(parts...)  (same hasher as PathFromContext,
                    NewPathFromDocument, ResolveDocPath) *)
| PKPackage.     (* merklize.NewPath(parts...) *)

Inductive step :=
| SRoot                                   (* mz.Root() *)
| SPathKey (pk : pkind) (parts : list part)   (* path.MtEntry() *)
| SProof (pk : pkind) (parts : list part)     (* mz.Proof(path), value.MtEntry(), path.MtEntry(),
                                                 merkletree.VerifyProof(mz.Root(), proof, key, valueHash) *)
| SEntry (pk : pkind) (parts : list part)     (* mz.Entry(path), then entry.KeyValueMtEntries() *)
| SType (pk : pkind) (parts : list part)      (* mz.JSONLDType(path) *)
| SNewEntry (parts : list part) (v : xval)    (* o := mz.Options(); p := o.NewPath(parts...);
                                                 e := o.NewRDFEntry(p, v); e.KeyValueMtEntries() *)
| SValue (v : xval).                          (* mz.MkValue(v).MtEntry() *)

Inductive obs :=
| ORoot (r : Z)
| OKey (r : res Z)
| OProof (r : res (proof * option (xval * res Z) * Z * res bool))
    (* proof; Value (content, its MtEntry) iff one was returned; the key the caller
       computes from the path; result of VerifyProof against Root() with that key and
       the Value's hash (0 when there is no Value) *)
| OEntry (r : res (xval * string * res (Z * Z)))
| OType (r : res string)
| ONewEntry (r : res (res (Z * Z)))
| OVal (r : res Z).

Definition mk_path (Hd : hasher) (m : mz) (pk : pkind) (parts : list part) : path :=
  match pk with
  | PKOptions => mz_new_path Hd m parts
  | PKPackage => new_path Hd parts
  end.

Definition proof_step (T : tparams) (Hd : hasher) (m : mz) (p : path)
  : res (proof * option (xval * res Z) * Z * res bool) :=
  pv <- mz_proof T Hd m p ;;
  k <- path_mt_entry Hd p ;;
  let pr := fst pv in
  let vi := match snd pv with
            | Some v => Some (v_val v, value_mt_entry v)
            | None => None
            end in
  let vh := match snd pv with
            | Some v => value_mt_entry v
            | None => Ok 0
            end in
  Ok (pr, vi, k, (h <- vh ;; t_verify T (mz_root T m) pr k h)).

Definition run_step (T : tparams) (Hd : hasher) (m : mz) (s : step) : obs :=
  match s with
  | SRoot => ORoot (mz_root T m)
  | SPathKey pk parts => OKey (path_mt_entry Hd (mk_path Hd m pk parts))
  | SProof pk parts => OProof (proof_step T Hd m (mk_path Hd m pk parts))
  | SEntry pk parts =>
      OEntry (e <- mz_entry Hd m (mk_path Hd m pk parts) ;;
              Ok (re_val e, re_dt e, entry_kv Hd e))
  | SType pk parts => OType (mz_jsonld_type Hd m (mk_path Hd m pk parts))
  | SNewEntry parts v =>
      ONewEntry (e <- opt_new_rdf_entry Hd (mz_options m) (mz_new_path Hd m parts) v ;;
                 Ok (entry_kv Hd e))
  | SValue v => OVal (x <- mz_mk_value m v ;; value_mt_entry x)
  end.

(* step number i runs while defaultHasher = D i *)
Fixpoint run_steps (T : tparams) (D : nat -> hasher) (i : nat) (m : mz) (ss : list step)
  : list obs :=
  match ss with
  | [] => []
  | s :: rest => run_step T (D i) m s :: run_steps T D (S i) m rest
  end.

(* MerklizeJSONLD (from the normalised dataset on, fresh tree) with WithHasher(cfg),
   then the script *)
Definition run (T : tparams) (F : floats) (D : nat -> hasher) (cfg : option hasher)
           (ds : dataset) (ss : list step) : res (list obs) :=
  m <- merklize_ds T (D O) F cfg None ds ;;
  Ok (run_steps T D 1%nat m ss).

(* scripts whose every Path comes from the merklizer's Options *)
Definition via_options (s : step) : bool :=
  match s with
  | SPathKey PKPackage _ | SProof PKPackage _ | SEntry PKPackage _ | SType PKPackage _ => false
  | _ => true
  end.
