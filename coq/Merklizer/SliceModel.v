(* Merklizer/SliceModel.v — Go slices over a heap of arrays, and Path.Append /
   Path.Prepend (merklize/merklize.go 508-538) at that level.  Executable, NO proofs
   (theorems: SliceTheory.v; per-run evaluation: SliceRun.v).

   Why: a Path is a VALUE holding a slice; copies of a Path, the caller's variadic
   argument and sub-slices handed out by the resolvers may share one backing array.
   Merklizer/Model.v abstracts `parts` to a list, which is sound only if the path
   operations never write into (or keep) an array somebody else can see.  This file
   is the level at which that is a statement.

   * heap  = list of arrays (an array = the list of its cells; its length never changes);
   * slice = (array id, offset, len, cap), cap counted from the offset;
   * `go_append` is the language's append: in place when len+|xs| <= cap, otherwise a
     fresh array (view ++ xs ++ spare cells; the amount of spare capacity is the
     parameter `slack`, Go's growth policy — nothing proved or observed depends on it);
   * `slice3 s` is the full-slice expression s[:len(s):len(s)];
   * `go_make` is make([]T, len, cap).

   The variadic argument `parts ...interface{}` of Append / Prepend IS the caller's
   slice when the call is written f(buf...): it is a slice of the heap here. *)
From Coq Require Import List Arith Bool.
Import ListNotations.

Record slice := mkslice { s_arr : nat; s_off : nat; s_len : nat; s_cap : nat }.

Section Slice.
Variable A : Type.
Variable dflt : A.             (* zero value of a fresh cell *)
Variable slack : nat -> nat.   (* spare capacity of a grown array, given the needed length *)

Definition heap := list (list A).

Definition arr (h : heap) (a : nat) : list A := nth a h [].
(* what reading the slice yields *)
Definition view (h : heap) (s : slice) : list A :=
  firstn (s_len s) (skipn (s_off s) (arr h (s_arr s))).

(* overwrite cells pos .. pos+|xs|-1 of an array *)
Definition splice (l : list A) (pos : nat) (xs : list A) : list A :=
  firstn pos l ++ xs ++ skipn (pos + length xs) l.

Fixpoint upd (h : heap) (a : nat) (l : list A) : heap :=
  match h, a with
  | [], _ => []
  | _ :: t, O => l :: t
  | x :: t, S a' => x :: upd t a' l
  end.

Definition go_append (h : heap) (s : slice) (xs : list A) : heap * slice :=
  let n := s_len s + length xs in
  if n <=? s_cap s then
    (upd h (s_arr s) (splice (arr h (s_arr s)) (s_off s + s_len s) xs),
     mkslice (s_arr s) (s_off s) n (s_cap s))
  else
    (h ++ [view h s ++ xs ++ repeat dflt (slack n)], mkslice (length h) 0 n (n + slack n)).

Definition go_make (h : heap) (len cap : nat) : heap * slice :=
  (h ++ [repeat dflt cap], mkslice (length h) 0 len cap).

Definition slice3 (s : slice) : slice := mkslice (s_arr s) (s_off s) (s_len s) (s_len s).

(* s[lo:hi] *)
Definition subslice (s : slice) (lo hi : nat) : slice :=
  mkslice (s_arr s) (s_off s + lo) (hi - lo) (s_cap s - lo).

(* s[i] = x *)
Definition set_elem (h : heap) (s : slice) (i : nat) (x : A) : heap :=
  upd h (s_arr s) (splice (arr h (s_arr s)) (s_off s + i) [x]).

(* ---- Path.Append / Path.Prepend: p = the slice p.parts, xs = the caller's argument slice ---- *)

(* Append as the code does it (since 6926cf0):
     p.parts = append(p.parts[:len(p.parts):len(p.parts)], parts...) *)
Definition append_fixed (h : heap) (p xs : slice) : heap * slice :=
  go_append h (slice3 p) (view h xs).

(* Prepend as the code does it (since 14ae93c):
     merged := make([]interface{}, 0, len(parts)+len(p.parts))
     merged = append(merged, parts...)
     p.parts = append(merged, p.parts...) *)
Definition prepend_fixed (h : heap) (p xs : slice) : heap * slice :=
  let '(h1, m) := go_make h 0 (s_len xs + s_len p) in
  let '(h2, m2) := go_append h1 m (view h1 xs) in
  go_append h2 m2 (view h2 p).

(* the earlier code: `p.parts = append(p.parts, parts...)` (before 6926cf0; D35) *)
Definition append_prefix (h : heap) (p xs : slice) : heap * slice :=
  go_append h p (view h xs).
(* the earlier code: `p.parts = append(parts, p.parts...)` (before 14ae93c; D36) *)
Definition prepend_prefix (h : heap) (p xs : slice) : heap * slice :=
  go_append h xs (view h p).

(* ---- short programs over Path values and caller buffers (per-run correspondence) ---- *)
Inductive op :=
| OMakeBuf (len cap : nat) (elems : list A)   (* b := make([]interface{}, len, cap); copy(b, elems)  -> new buffer *)
| OSubBuf (b lo hi : nat)                     (* new buffer := buf_b[lo:hi] *)
| OSetBuf (b i : nat) (x : A)                 (* buf_b[i] = x *)
| ONewPath (b : nat)                          (* p := NewPath(buf_b...)                 -> new path *)
| OCopy (p : nat)                             (* q := p (a Path is copied by value)     -> new path *)
| OAppend (p b : nat)                         (* path_p.Append(buf_b...) *)
| OPrepend (p b : nat).                       (* path_p.Prepend(buf_b...) *)

Record state := mkst { st_heap : heap; st_paths : list slice; st_bufs : list slice }.

(* array 0 is the empty array nil slices point to *)
Definition nil_slice : slice := mkslice 0 0 0 0.
Definition init_state : state := mkst [[]] [] [].

Fixpoint set_nth {B} (l : list B) (i : nat) (x : B) : list B :=
  match l, i with
  | [], _ => []
  | _ :: t, O => x :: t
  | y :: t, S i' => y :: set_nth t i' x
  end.

Definition fill (elems : list A) (cap : nat) : list A :=
  firstn cap (elems ++ repeat dflt cap).

(* None = the program refers to a variable that does not exist / indexes out of range *)
Definition step (st : state) (o : op) : option state :=
  let h := st_heap st in
  match o with
  | OMakeBuf len cap elems =>
      if len <=? cap then
        Some (mkst (h ++ [fill elems cap]) (st_paths st) (st_bufs st ++ [mkslice (length h) 0 len cap]))
      else None
  | OSubBuf b lo hi =>
      match nth_error (st_bufs st) b with
      | Some s => if (lo <=? hi) && (hi <=? s_cap s)
                  then Some (mkst h (st_paths st) (st_bufs st ++ [subslice s lo hi])) else None
      | None => None
      end
  | OSetBuf b i x =>
      match nth_error (st_bufs st) b with
      | Some s => if i <? s_len s then Some (mkst (set_elem h s i x) (st_paths st) (st_bufs st)) else None
      | None => None
      end
  | ONewPath b =>
      match nth_error (st_bufs st) b with
      | Some xs => let '(h', p) := append_fixed h nil_slice xs in
                   Some (mkst h' (st_paths st ++ [p]) (st_bufs st))
      | None => None
      end
  | OCopy p =>
      match nth_error (st_paths st) p with
      | Some s => Some (mkst h (st_paths st ++ [s]) (st_bufs st))
      | None => None
      end
  | OAppend p b =>
      match nth_error (st_paths st) p, nth_error (st_bufs st) b with
      | Some s, Some xs => let '(h', s') := append_fixed h s xs in
                           Some (mkst h' (set_nth (st_paths st) p s') (st_bufs st))
      | _, _ => None
      end
  | OPrepend p b =>
      match nth_error (st_paths st) p, nth_error (st_bufs st) b with
      | Some s, Some xs => let '(h', s') := prepend_fixed h s xs in
                           Some (mkst h' (set_nth (st_paths st) p s') (st_bufs st))
      | _, _ => None
      end
  end.

Fixpoint run_ops (st : state) (ops : list op) : option state :=
  match ops with
  | [] => Some st
  | o :: rest => match step st o with Some st' => run_ops st' rest | None => None end
  end.

(* Parts() of every path variable, then the contents of every buffer *)
Definition read_all (st : state) : list (list A) * list (list A) :=
  (map (view (st_heap st)) (st_paths st), map (view (st_heap st)) (st_bufs st)).

End Slice.
