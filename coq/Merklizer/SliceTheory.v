(* Merklizer/SliceTheory.v — theorems about SliceModel.v: result views, the FRAME
   property of the fixed Path.Append / Path.Prepend (no other slice of the heap
   changes, the result lives in an array nobody else can see), and witnesses that
   the two earlier versions violate it.  For every element type, every growth
   policy `slack`, every heap. *)
From Coq Require Import List Arith Bool Lia.
From GSP Require Import Merklizer.SliceModel.
Import ListNotations.

Section Theory.
Variable A : Type.
Variable dflt : A.
Variable slack : nat -> nat.

Notation heap := (heap A).
Notation view := (view A).
Notation arr := (arr A).
Notation go_append := (go_append A dflt slack).
Notation go_make := (go_make A dflt).

(* a slice the program can hold: its window lies inside its array *)
Definition valid (h : heap) (s : slice) : Prop :=
  s_arr s < length h /\ s_off s + s_cap s <= length (arr h (s_arr s)) /\ s_len s <= s_cap s.

(* ---- lists ---- *)
Lemma firstn_plus : forall (a b : nat) (l : list A),
  firstn (a + b) l = firstn a l ++ firstn b (skipn a l).
Proof.
  induction a as [|a IH]; intros b l; simpl; [reflexivity|].
  destruct l as [|x l]; simpl; [now rewrite firstn_nil|]. now rewrite IH.
Qed.

Lemma skipn_app_exact : forall (l1 l2 : list A) n, length l1 = n -> skipn n (l1 ++ l2) = l2.
Proof. induction l1 as [|x l1 IH]; intros l2 n H; subst; simpl; auto. Qed.

Lemma firstn_app_exact : forall (l1 l2 : list A) n, length l1 = n -> firstn n (l1 ++ l2) = l1.
Proof.
  induction l1 as [|x l1 IH]; intros l2 n H; subst; simpl; [reflexivity|]. f_equal. now apply IH.
Qed.

Lemma splice_length l pos (xs : list A) :
  pos + length xs <= length l -> length (splice A l pos xs) = length l.
Proof.
  intros H. unfold splice. rewrite !app_length, firstn_length, skipn_length. lia.
Qed.

Lemma splice_nil l pos : splice A l pos [] = l.
Proof. unfold splice. simpl. rewrite Nat.add_0_r. apply firstn_skipn. Qed.

Lemma window_length (l : list A) off len :
  off + len <= length l -> length (firstn len (skipn off l)) = len.
Proof. intros H. rewrite firstn_length, skipn_length. lia. Qed.

(* reading a window after writing xs right behind it *)
Lemma splice_window l off len (xs : list A) :
  off + len + length xs <= length l ->
  firstn (len + length xs) (skipn off (splice A l (off + len) xs)) =
  firstn len (skipn off l) ++ xs.
Proof.
  intros H. unfold splice. rewrite (firstn_plus off len l), <- app_assoc.
  rewrite skipn_app_exact by (rewrite firstn_length; lia).
  rewrite app_assoc. apply firstn_app_exact.
  rewrite app_length, window_length by lia. reflexivity.
Qed.

(* ---- heaps ---- *)
Lemma upd_length : forall (h : heap) a l, length (upd A h a l) = length h.
Proof. induction h as [|x h IH]; intros [|a] l; simpl; auto. Qed.

Lemma upd_same : forall (h : heap) a l, a < length h -> nth a (upd A h a l) [] = l.
Proof.
  induction h as [|x h IH]; intros [|a] l H; simpl in *; try lia; auto. apply IH. lia.
Qed.

Lemma upd_other : forall (h : heap) a b l, a <> b -> nth b (upd A h a l) [] = nth b h [].
Proof.
  induction h as [|x h IH]; intros [|a] [|b] l H; simpl; auto; try congruence.
Qed.

Lemma upd_id : forall (h : heap) a, upd A h a (nth a h []) = h.
Proof.
  induction h as [|x h IH]; intros [|a]; simpl; auto. now rewrite IH.
Qed.

Lemma valid_view_length h s : valid h s -> length (view h s) = s_len s.
Proof. intros (_ & H1 & H2). unfold SliceModel.view. apply window_length. lia. Qed.

(* a slice of h reads the same in an extended heap *)
Lemma extend_frame (h : heap) X t :
  valid h t -> view (h ++ [X]) t = view h t /\ valid (h ++ [X]) t.
Proof.
  intros (H0 & H1 & H2). unfold SliceModel.view, valid, SliceModel.arr.
  rewrite app_nth1 by exact H0. split; [reflexivity|].
  rewrite app_length. simpl. repeat split; auto; lia.
Qed.

(* a slice of another array reads the same after an array was overwritten *)
Lemma upd_frame (h : heap) a l t :
  valid h t -> s_arr t <> a -> view (upd A h a l) t = view h t /\ valid (upd A h a l) t.
Proof.
  intros (H0 & H1 & H2) Hne. unfold SliceModel.view, valid, SliceModel.arr.
  rewrite upd_other by congruence. split; [reflexivity|].
  rewrite upd_length. auto.
Qed.

(* ---- append ---- *)
Theorem go_append_view h s xs :
  valid h s ->
  view (fst (go_append h s xs)) (snd (go_append h s xs)) = view h s ++ xs /\
  valid (fst (go_append h s xs)) (snd (go_append h s xs)).
Proof.
  intros Hv. pose proof Hv as (H0 & H1 & H2). unfold SliceModel.go_append.
  destruct (s_len s + length xs <=? s_cap s) eqn:Hfit; simpl.
  - apply Nat.leb_le in Hfit. unfold SliceModel.view, valid, SliceModel.arr. simpl.
    rewrite upd_same by exact H0. split.
    + apply splice_window. fold (arr h (s_arr s)). lia.
    + rewrite upd_length, splice_length by (fold (arr h (s_arr s)); lia). auto.
  - apply Nat.leb_gt in Hfit. unfold SliceModel.view at 1, valid, SliceModel.arr. simpl.
    rewrite nth_middle. simpl. split.
    + rewrite app_assoc. apply firstn_app_exact.
      rewrite app_length, valid_view_length by exact Hv. reflexivity.
    + rewrite app_length. simpl. repeat split; try lia.
      rewrite !app_length, repeat_length, valid_view_length by exact Hv. lia.
Qed.

(* growing: nothing anybody else holds changes, and the result is in a NEW array *)
Theorem go_append_grow_frame h s xs :
  s_cap s < s_len s + length xs ->
  s_arr (snd (go_append h s xs)) = length h /\
  forall t, valid h t ->
    view (fst (go_append h s xs)) t = view h t /\ valid (fst (go_append h s xs)) t.
Proof.
  intros Hg. unfold SliceModel.go_append.
  apply Nat.leb_gt in Hg. rewrite Hg. simpl. split; [reflexivity|].
  intros t Ht. now apply extend_frame.
Qed.

(* in place: slices of OTHER arrays do not change *)
Theorem go_append_inplace_frame h s xs :
  s_len s + length xs <= s_cap s ->
  forall t, valid h t -> s_arr t <> s_arr s ->
    view (fst (go_append h s xs)) t = view h t /\ valid (fst (go_append h s xs)) t.
Proof.
  intros Hf t Ht Hne. unfold SliceModel.go_append.
  apply Nat.leb_le in Hf. rewrite Hf. simpl. now apply upd_frame.
Qed.

Lemma slice3_valid h p : valid h p -> valid h (slice3 p) /\ view h (slice3 p) = view h p.
Proof. intros (H0 & H1 & H2). unfold valid, slice3, SliceModel.view; simpl. repeat split; auto; lia. Qed.

(* ---- Path.Append as the code does it ---- *)
Theorem append_fixed_spec h p xs :
  valid h p ->
  let r := append_fixed A dflt slack h p xs in
  view (fst r) (snd r) = view h p ++ view h xs /\ valid (fst r) (snd r) /\
  (forall t, valid h t -> view (fst r) t = view h t /\ valid (fst r) t) /\
  (view h xs <> [] -> s_arr (snd r) = length h).
Proof.
  intros Hp r. destruct (slice3_valid h p Hp) as (H3 & Hv3).
  destruct (go_append_view h (slice3 p) (view h xs) H3) as (Hview & Hval).
  subst r. unfold append_fixed. rewrite Hview, Hv3.
  split; [reflexivity|]. split; [exact Hval|].
  destruct (view h xs) as [|x l] eqn:Hxs.
  - (* nothing to append: the heap is untouched *)
    split; [|congruence]. intros t Ht.
    unfold SliceModel.go_append. simpl. rewrite Nat.add_0_r, Nat.leb_refl. simpl.
    rewrite splice_nil. unfold SliceModel.arr. rewrite upd_id. auto.
  - assert (Hg : s_cap (slice3 p) < s_len (slice3 p) + length (x :: l)) by (simpl; lia).
    destruct (go_append_grow_frame h (slice3 p) (x :: l) Hg) as (Hnew & Hframe).
    split; [exact Hframe|]. intros _. exact Hnew.
Qed.

(* ---- Path.Prepend as the code does it ---- *)
Theorem prepend_fixed_spec h p xs :
  valid h p -> valid h xs ->
  let r := prepend_fixed A dflt slack h p xs in
  view (fst r) (snd r) = view h xs ++ view h p /\ valid (fst r) (snd r) /\
  (forall t, valid h t -> view (fst r) t = view h t /\ valid (fst r) t) /\
  s_arr (snd r) = length h.
Proof.
  intros Hp Hxs r. subst r. unfold prepend_fixed, SliceModel.go_make.
  set (n := s_len xs + s_len p).
  set (h1 := h ++ [repeat dflt n]). set (m := mkslice (length h) 0 0 n).
  assert (Hm : valid h1 m).
  { unfold valid, h1, m, SliceModel.arr; simpl. rewrite app_length, nth_middle, repeat_length. simpl. lia. }
  assert (F1 : forall t, valid h t -> view h1 t = view h t /\ valid h1 t)
    by (intros t Ht; now apply extend_frame).
  destruct (F1 xs Hxs) as (Vxs1 & Hxs1). destruct (F1 p Hp) as (Vp1 & Hp1).
  (* first append: in place into the fresh array *)
  assert (Hfit1 : s_len m + length (view h1 xs) <= s_cap m).
  { rewrite Vxs1, (valid_view_length h xs Hxs). unfold m, n. simpl. lia. }
  destruct (go_append_view h1 m (view h1 xs) Hm) as (Vm2 & Hm2).
  pose proof (go_append_inplace_frame h1 m (view h1 xs) Hfit1) as F2.
  destruct (go_append h1 m (view h1 xs)) as (h2, m2) eqn:E2. simpl in Vm2, Hm2, F2.
  assert (Hm2arr : s_arr m2 = length h /\ s_len m2 = s_len xs /\ s_cap m2 = n).
  { unfold SliceModel.go_append in E2. apply Nat.leb_le in Hfit1. rewrite Hfit1 in E2.
    inversion E2; subst m2; simpl. rewrite Vxs1, (valid_view_length h xs Hxs). auto. }
  destruct Hm2arr as (Ha2 & Hl2 & Hc2).
  assert (Hne : forall t, valid h t -> s_arr t <> s_arr m).
  { intros t (Ht & _). unfold m; simpl. lia. }
  assert (F12 : forall t, valid h t -> view h2 t = view h t /\ valid h2 t).
  { intros t Ht. destruct (F1 t Ht) as (V1 & H1). destruct (F2 t H1 (Hne t Ht)) as (V2 & H2).
    split; [congruence|exact H2]. }
  destruct (F12 p Hp) as (Vp2 & Hp2).
  (* second append: in place again *)
  assert (Hfit2 : s_len m2 + length (view h2 p) <= s_cap m2).
  { rewrite Vp2, (valid_view_length h p Hp), Hl2, Hc2. unfold n. lia. }
  destruct (go_append_view h2 m2 (view h2 p) Hm2) as (Vm3 & Hm3).
  pose proof (go_append_inplace_frame h2 m2 (view h2 p) Hfit2) as F3.
  assert (Harr3 : s_arr (snd (go_append h2 m2 (view h2 p))) = length h).
  { unfold SliceModel.go_append. apply Nat.leb_le in Hfit2. rewrite Hfit2. simpl. exact Ha2. }
  split; [|split; [exact Hm3|split; [|exact Harr3]]].
  - rewrite Vm3, Vm2, Vp2, Vxs1. unfold SliceModel.view at 1, m. simpl. reflexivity.
  - intros t Ht. destruct (F12 t Ht) as (V2 & H2).
    assert (Hne2 : s_arr t <> s_arr m2) by (destruct Ht as (Ht & _); lia).
    destruct (F3 t H2 Hne2) as (V3 & H3). split; [congruence|exact H3].
Qed.
End Theory.

(* ------------------------------------------------------------------ *)
(* the two earlier versions violate the frame property (witnesses)      *)
(* ------------------------------------------------------------------ *)

(* D35: `p.parts = append(p.parts, parts...)`.  p has spare capacity and was copied to q,
   q was extended in place; now p.Append writes into the cell q reads. *)
Example append_prefix_refuted :
  exists (h : heap nat) (p q xs : slice),
    valid nat h p /\ valid nat h q /\ valid nat h xs /\
    view nat (fst (append_prefix nat 0 (fun _ => 0) h p xs)) q <> view nat h q.
Proof.
  exists [[10; 20; 0; 0]; [77]], (mkslice 0 0 1 4), (mkslice 0 0 2 4), (mkslice 1 0 1 1).
  unfold valid. simpl. repeat split; try lia. vm_compute. discriminate.
Qed.

(* D36 (1): `p.parts = append(parts, p.parts...)`.  The caller's prefix buffer has spare
   capacity and was already used to complete path q; completing p from the same buffer
   writes p's tail into the cell q reads. *)
Example prepend_prefix_refuted :
  exists (h : heap nat) (p q xs : slice),
    valid nat h p /\ valid nat h q /\ valid nat h xs /\
    view nat (fst (prepend_prefix nat 0 (fun _ => 0) h p xs)) q <> view nat h q.
Proof.
  exists [[1; 51; 0; 0]; [52]], (mkslice 1 0 1 1), (mkslice 0 0 2 4), (mkslice 0 0 1 4).
  unfold valid. simpl. repeat split; try lia. vm_compute. discriminate.
Qed.

(* D36 (2): on an empty path the earlier Prepend KEEPS the caller's slice: the result
   shares its array with the argument, so a later write by the caller shows through. *)
Example prepend_prefix_keeps_argument :
  exists (h : heap nat) (p xs : slice),
    valid nat h p /\ valid nat h xs /\
    let r := prepend_prefix nat 0 (fun _ => 0) h p xs in
    s_arr (snd r) = s_arr xs /\
    view nat (set_elem nat (fst r) xs 0 99) (snd r) <> view nat (fst r) (snd r).
Proof.
  exists [[]; [5; 6]], (mkslice 0 0 0 0), (mkslice 1 0 2 2).
  unfold valid. simpl. repeat split; try lia. vm_compute. discriminate.
Qed.

(* non-vacuity of the positive theorems: the same situations under the fixed code *)
Example append_fixed_keeps_copy :
  let h := [[10; 20; 0; 0]; [77]] in
  let r := append_fixed nat 0 (fun _ => 3) h (mkslice 0 0 1 4) (mkslice 1 0 1 1) in
  view nat (fst r) (snd r) = [10; 77] /\ view nat (fst r) (mkslice 0 0 2 4) = [10; 20].
Proof. vm_compute. split; reflexivity. Qed.

Example prepend_fixed_keeps_sibling :
  let h := [[1; 51; 0; 0]; [52]] in
  let r := prepend_fixed nat 0 (fun _ => 3) h (mkslice 1 0 1 1) (mkslice 0 0 1 4) in
  view nat (fst r) (snd r) = [1; 52] /\ view nat (fst r) (mkslice 0 0 2 4) = [1; 51].
Proof. vm_compute. split; reflexivity. Qed.
