(* Merklizer/Model.v — executable model of the Merklizer object of
   merklize/merklize.go and merklize/rdfentry.go (tree as of the fix commits
   58805e9 .. 72b544a):

     Options.getHasher / NewPath / NewRDFEntry           merklize.go 61-135
     NewPath, Path.MtEntry                                merklize.go 174-178, 464-487
     NewValue, value.MtEntry                              merklize.go 537-556
     EntriesFromRDFWithHasher (hasher plumbing only; the dataset -> entries
       algorithm is RDF/Model.v)                          merklize.go 1025-1117
     AddEntriesToMerkleTree                               merklize.go 1389-1405
     MerklizeJSONLD (from the normalised dataset on)      merklize.go 1544-1612
     Merklizer.Entry / JSONLDType / Options / Proof /
       MkValue / Root / Hasher                            merklize.go 1614-1778
     RDFEntry.KeyMtEntry / ValueMtEntry /
       KeyValueMtEntries / getHasher                      rdfentry.go 27-61

   NO proofs in this file (theorems: Merklizer/Theory.v; per-run evaluation:
   Merklizer/Run.v).

   Two hashers everywhere
   ----------------------
   Every function that can reach the package variable `defaultHasher` in Go takes
   it as the explicit argument `Hd` (the value of the global AT THE TIME OF THE
   CALL: merklize.SetHasher can change it between calls, so callers may pass a
   different Hd to every call).  A configured hasher (WithHasher, Options.Hasher,
   the `hasher` fields of Path / RDFEntry / value / Merklizer) is an
   `option hasher` where Go has a nil-able interface, and `hasher_or Hd o` is the
   Go idiom `h := x.hasher; if h == nil { h = defaultHasher }`.  `Hd` is used
   exactly at the Go sites that mention defaultHasher, so "the default hasher is
   never silently substituted" is the statement that results do not depend on Hd
   (C16).

   The sparse Merkle tree is SMT/Model.v; its node hash (Poseidon over BN254, NOT
   the merklizer's hasher), depth and field modulus are bundled in `tparams`.

   Not modelled here: JSON-LD expansion / URDNA2015 (json-gold) — the input is
   the normalised dataset; the compacted document, RawValue and the resolvers
   (PathFromContext, NewPathFromDocument, ResolveDocPath) except for the hasher
   they store in the resulting Path (`opt_new_path`); gob (C13, elsewhere). *)
From Coq Require Import ZArith List String Ascii Bool.
From GSP Require Import Base.Prelude Value.Time Value.Model RDF.Model SMT.Model.
Import ListNotations.
Open Scope string_scope.
Open Scope list_scope.
Open Scope Z_scope.

(* ---------- hashers ---------- *)
(* `hasher` is Value.Model.hasher: h_prime, h_hash : list Z -> ores, h_bytes : string -> ores *)

(* h := x; if h == nil { h = defaultHasher } *)
Definition hasher_or (Hd : hasher) (o : option hasher) : hasher :=
  match o with Some h => h | None => Hd end.

(* ---------- the tree's own parameters ---------- *)
Record tparams := mktp {
  tp_hl : Z -> Z -> Z;       (* Poseidon[k; v; 1]  (leaf key) *)
  tp_hm : Z -> Z -> Z;       (* Poseidon[l; r]     (middle node key) *)
  tp_maxlev : nat;           (* 40 in MerklizeJSONLD / MerklizerFromBytes *)
  tp_q : Z                   (* constants.Q *)
}.

Definition t_root (T : tparams) (t : tree) : Z := root (tp_hl T) (tp_hm T) t.
Definition t_add (T : tparams) (t : tree) (k v : Z) : res tree :=
  mt_add (tp_maxlev T) (tp_q T) t k v.
Definition t_gen (T : tparams) (t : tree) (k : Z) : res (proof * Z) :=
  mt_gen (tp_hl T) (tp_hm T) (tp_maxlev T) (tp_q T) t k.
(* merkletree.VerifyProof(root, proof, k, v) *)
Definition t_verify (T : tparams) (r : Z) (p : proof) (k v : Z) : res bool :=
  mt_verify_proof (tp_hl T) (tp_hm T) (tp_q T) r p k v.

(* ---------- Path ---------- *)
(* type Path struct { parts []interface{}; hasher Hasher } *)
Record path := mkpath { p_parts : list part; p_hasher : option hasher }.

(* the loop of Path.MtEntry: string parts through HashBytes (first error wins,
   left to right), integer parts as themselves *)
Fixpoint hash_parts (H : hasher) (ps : list part) : res (list Z) :=
  match ps with
  | [] => Ok []
  | PStr s :: t =>
      z <- of_ores (h_bytes H s) "hashbytes" ;;
      r <- hash_parts H t ;;
      Ok (z :: r)
  | PInt i :: t =>
      r <- hash_parts H t ;;
      Ok (i :: r)
  end.

(* Path.MtEntry under a given hasher: h.Hash(intKeyParts) *)
Definition hash_path (H : hasher) (ps : list part) : res Z :=
  ks <- hash_parts H ps ;;
  of_ores (h_hash H ks) "hash".

(* Path.MtEntry: `h := p.hasher; if h == nil { h = defaultHasher }` *)
Definition path_mt_entry (Hd : hasher) (p : path) : res Z :=
  hash_path (hasher_or Hd (p_hasher p)) (p_parts p).

(* merklize.NewPath(parts...): Path{hasher: defaultHasher} *)
Definition new_path (Hd : hasher) (parts : list part) : path :=
  mkpath parts (Some Hd).

(* Options{Hasher: o}.getHasher() *)
Definition opt_hasher (Hd : hasher) (o : option hasher) : hasher := hasher_or Hd o.

(* Options.NewPath(parts...); the same hasher is stored by PathFromContext,
   FieldPathFromContext and NewPathFromDocument (whose `parts` come out of the
   JSON-LD resolvers, which never hash) *)
Definition opt_new_path (Hd : hasher) (o : option hasher) (parts : list part) : path :=
  mkpath parts (Some (opt_hasher Hd o)).

(* ---------- Value ---------- *)
(* type value struct { value any; hasher Hasher };  NewValue(hasher, val) stores
   the hasher AS GIVEN (no fallback to the default) *)
Record value := mkvalue { v_val : xval; v_hasher : option hasher }.

Definition new_value (h : option hasher) (v : xval) : res value := Ok (mkvalue v h).

(* value.MtEntry = mkValueMtEntry(v.hasher, v.value); a nil hasher is
   dereferenced by every branch except a non-negative int64 *)
Definition value_mt_entry (v : value) : res Z :=
  match v_hasher v with
  | Some h => mk_value_entry h (v_val v)
  | None =>
      match v_val v with
      | XInt64 z => if 0 <=? z then Ok z else Panic "nil-hasher"
      | _ => Panic "nil-hasher"
      end
  end.

(* ---------- RDFEntry ---------- *)
(* type RDFEntry struct { key Path; value any; datatype string; hasher Hasher } *)
Record rdf_entry := mkentry {
  re_key : path;
  re_val : xval;
  re_dt : string;
  re_hasher : option hasher
}.

(* RDFEntry.KeyMtEntry *)
Definition entry_key_mt (Hd : hasher) (e : rdf_entry) : res Z := path_mt_entry Hd (re_key e).
(* RDFEntry.ValueMtEntry = mkValueMtEntry(e.getHasher(), e.value) *)
Definition entry_val_mt (Hd : hasher) (e : rdf_entry) : res Z :=
  mk_value_entry (hasher_or Hd (re_hasher e)) (re_val e).
(* RDFEntry.KeyValueMtEntries: key first, then value *)
Definition entry_kv (Hd : hasher) (e : rdf_entry) : res (Z * Z) :=
  k <- entry_key_mt Hd e ;;
  v <- entry_val_mt Hd e ;;
  Ok (k, v).

(* Options.NewRDFEntry(key, value): the key keeps the hasher of the Path it was
   built with; datatype stays "" *)
Definition opt_new_rdf_entry (Hd : hasher) (o : option hasher) (key : path) (v : xval)
  : res rdf_entry :=
  match p_parts key with
  | [] => Err "key-empty"
  | _ => Ok (mkentry key v "" (Some (opt_hasher Hd o)))
  end.
(* merklize.NewRDFEntry = Options{}.NewRDFEntry *)
Definition new_rdf_entry (Hd : hasher) (key : path) (v : xval) : res rdf_entry :=
  opt_new_rdf_entry Hd None key v.

(* EntriesFromRDFWithHasher(ds, hasher):
     entryHasher := hasher; if hasher == nil { hasher = defaultHasher }
     rs := newRelationship(ds, hasher)      -> every key is Path{hasher: hasher}
     e := RDFEntry{hasher: entryHasher}; value converted under hasher.Prime() *)
Definition wrap_entry (h : hasher) (ho : option hasher) (e : entry) : rdf_entry :=
  mkentry (mkpath (e_key e) (Some h)) (e_val e) (e_dt e) ho.
Definition entries_from_rdf_h (Hd : hasher) (F : floats) (ho : option hasher) (ds : dataset)
  : res (list rdf_entry) :=
  let h := hasher_or Hd ho in
  es <- entries_from_rdf F (h_prime h) ds ;;
  Ok (map (wrap_entry h ho) es).

(* ---------- AddEntriesToMerkleTree ---------- *)
Fixpoint merklize_entries (T : tparams) (Hd : hasher) (t : tree) (es : list rdf_entry)
  : res tree :=
  match es with
  | [] => Ok t
  | e :: rest =>
      kv <- entry_kv Hd e ;;
      t' <- t_add T t (fst kv) (snd kv) ;;
      merklize_entries T Hd t' rest
  end.

(* ---------- Merklizer ---------- *)
(* entries: Go map[string]RDFEntry keyed by key.String() (decimal: injective on Z),
   built by insertion in entry order; tree: mz.mt; hasher: mz.hasher, never nil
   once MerklizeJSONLD / MerklizerFromBytes has returned *)
Record mz := mkmz {
  mz_entries : list (Z * rdf_entry);
  mz_tree : tree;
  mz_hasher : hasher
}.

(* `for _, e := range entries { key, err = e.KeyMtEntry(); mz.entries[key.String()] = e }` *)
Fixpoint index_entries (Hd : hasher) (es : list rdf_entry) (m : list (Z * rdf_entry))
  : res (list (Z * rdf_entry)) :=
  match es with
  | [] => Ok m
  | e :: rest =>
      k <- entry_key_mt Hd e ;;
      index_entries Hd rest (upsert Z.eqb k e m)
  end.

(* MerklizeJSONLD from `entries` on: map, then tree.  cfg = WithHasher (None: not
   given -> `mz.hasher = defaultHasher`), t0 = WithMerkleTree (None: fresh tree) *)
Definition merklize_from_entries (T : tparams) (Hd : hasher) (h : hasher) (t0 : option tree)
           (es : list rdf_entry) : res mz :=
  m <- index_entries Hd es [] ;;
  t <- merklize_entries T Hd (match t0 with Some t => t | None => E end) es ;;
  Ok (mkmz m t h).

(* MerklizeJSONLD from the normalised dataset on (Compact, which only fills
   mz.compacted, is not modelled) *)
Definition merklize_ds (T : tparams) (Hd : hasher) (F : floats) (cfg : option hasher)
           (t0 : option tree) (ds : dataset) : res mz :=
  let h := hasher_or Hd cfg in
  es <- entries_from_rdf_h Hd F (Some h) ds ;;
  merklize_from_entries T Hd h t0 es.

(* Merklizer.Hasher / Options / MkValue / Root *)
Definition mz_options (m : mz) : option hasher := Some (mz_hasher m).
Definition mz_new_path (Hd : hasher) (m : mz) (parts : list part) : path :=
  opt_new_path Hd (mz_options m) parts.
Definition mz_mk_value (m : mz) (v : xval) : res value := new_value (Some (mz_hasher m)) v.
Definition mz_root (T : tparams) (m : mz) : Z := t_root T (mz_tree m).

(* Merklizer.Entry *)
Definition mz_entry (Hd : hasher) (m : mz) (p : path) : res rdf_entry :=
  k <- path_mt_entry Hd p ;;
  match assoc Z.eqb k (mz_entries m) with
  | Some e => Ok e
  | None => Err "entry-not-found"
  end.

(* Merklizer.JSONLDType *)
Definition mz_jsonld_type (Hd : hasher) (m : mz) (p : path) : res string :=
  e <- mz_entry Hd m p ;;
  Ok (re_dt e).

(* Merklizer.Proof: key, GenerateProof, Value iff Existence *)
Definition mz_proof (T : tparams) (Hd : hasher) (m : mz) (p : path)
  : res (proof * option value) :=
  k <- path_mt_entry Hd p ;;
  pv <- t_gen T (mz_tree m) k ;;
  let pr := fst pv in
  if ex pr then
    match assoc Z.eqb k (mz_entries m) with
    | None => Err "assert-no-entry"
    | Some e =>
        v <- new_value (Some (mz_hasher m)) (re_val e) ;;
        Ok (pr, Some v)
    end
  else Ok (pr, None).
