(* Merklizer/Theory.v — theorems about Merklizer/Model.v and Script.v.

   Part A (C02): the invariant `mz_wf` every merklizer built by MerklizeJSONLD
   satisfies (entries map <-> tree leaves bijection, tree well formed, every
   stored entry carries the merklizer's hasher), and from it: every member path
   gets an existence proof + Value that verifies against Root(), every path whose
   key is not a member key gets a verifying non-existence proof and no Value,
   Entry / JSONLDType succeed exactly where the proof is an existence proof.
   All for ARBITRARY hashers (default and configured), arbitrary tree hash
   functions (no injectivity, no collision-freeness), any number of entries.

   Part B (C16): non-interference — nothing a script over a merklizer configured
   with a hasher observes depends on the package default hasher, whatever that is
   at each call; integer ranges follow the configured hasher's prime. *)
From Coq Require Import ZArith List String Bool Arith Lia Permutation.
From GSP Require Import Base.Prelude Value.Time Value.Model Value.Theory RDF.Model
  SMT.Model SMT.Theory Merklizer.Model Merklizer.Script.
Import ListNotations.
Open Scope list_scope.
Open Scope Z_scope.

(* ------------------------------------------------------------------ *)
(* generic facts                                                        *)
(* ------------------------------------------------------------------ *)

Lemma bind_ok {A B} (r : res A) (f : A -> res B) b :
  bind r f = Ok b -> exists a, r = Ok a /\ f a = Ok b.
Proof. destruct r; simpl; intros H; try discriminate. eauto. Qed.

Lemma assoc_in {V} (k : Z) (l : list (Z * V)) v :
  assoc Z.eqb k l = Some v -> In (k, v) l.
Proof.
  induction l as [|(a, b) l IH]; simpl; intros H; [discriminate|].
  destruct (Z.eqb_spec a k) as [->|Hne].
  - inversion H; subst. now left.
  - right. auto.
Qed.

Lemma assoc_none {V} (k : Z) (l : list (Z * V)) :
  ~ In k (map fst l) -> assoc Z.eqb k l = None.
Proof.
  induction l as [|(a, b) l IH]; simpl; intros H; [reflexivity|].
  destruct (Z.eqb_spec a k) as [->|Hne]; [exfalso; apply H; now left|].
  apply IH. intros Hin. apply H. now right.
Qed.

Lemma assoc_nodup {V} (k : Z) (l : list (Z * V)) v :
  NoDup (map fst l) -> In (k, v) l -> assoc Z.eqb k l = Some v.
Proof.
  induction l as [|(a, b) l IH]; simpl; intros Hnd Hin; [contradiction|].
  inversion Hnd as [|x xs Hx Hnd']; subst.
  destruct Hin as [Heq|Hin].
  - inversion Heq; subst. now rewrite Z.eqb_refl.
  - destruct (Z.eqb_spec a k) as [->|Hne]; [|auto].
    exfalso. apply Hx. apply (in_map fst) in Hin. exact Hin.
Qed.

Lemma nodup_fun {V} (l : list (Z * V)) k a b :
  NoDup (map fst l) -> In (k, a) l -> In (k, b) l -> a = b.
Proof.
  intros Hnd Ha Hb. apply (assoc_nodup k l a Hnd) in Ha. apply (assoc_nodup k l b Hnd) in Hb.
  congruence.
Qed.

Lemma upsert_fresh {V} (k : Z) (v : V) (m : list (Z * V)) :
  ~ In k (map fst m) -> upsert Z.eqb k v m = m ++ [(k, v)].
Proof.
  induction m as [|(a, b) m IH]; simpl; intros H; [reflexivity|].
  destruct (Z.eqb_spec a k) as [->|Hne]; [exfalso; apply H; now left|].
  f_equal. apply IH. intros Hin. apply H. now right.
Qed.

Lemma nodup_map_inv {A B} (f : A -> B) (l : list A) : NoDup (map f l) -> NoDup l.
Proof.
  induction l as [|x l IH]; simpl; intros H; [constructor|].
  inversion H; subst. constructor; auto. intros Hin. apply H2. now apply in_map.
Qed.

Lemma nodup_app_l {A} (l l' : list A) : NoDup (l ++ l') -> NoDup l.
Proof.
  induction l as [|x l IH]; simpl; intros H; [constructor|].
  inversion H; subst. constructor; auto. intros Hin. apply H2. apply in_or_app. now left.
Qed.

Lemma existsb_false_forall {A} (f : A -> bool) (l : list A) :
  Forall (fun x => f x = false) l -> existsb f l = false.
Proof. induction 1 as [|x l Hx _ IH]; simpl; [reflexivity|]. now rewrite Hx, IH. Qed.

(* ------------------------------------------------------------------ *)
(* tree facts not (yet) in SMT/Theory.v                                 *)
(* ------------------------------------------------------------------ *)
Section Tree.
Variable hl : Z -> Z -> Z.
Variable hm : Z -> Z -> Z.
Variable maxlev : nat.

(* the level bound of GenerateProof never fires on a tree `add` can build *)
Lemma gen_b_gen : forall t lvl k acc,
  wf_at maxlev lvl t -> (lvl < maxlev)%nat ->
  gen_b hl hm (maxlev - lvl) t lvl k acc = Ok (gen hl hm t lvl k acc).
Proof.
  induction t as [|k' v'|l IHl r IHr]; intros lvl k acc Hwf Hlt;
    destruct (maxlev - lvl)%nat as [|n] eqn:Hn; try lia; simpl.
  - reflexivity.
  - destruct (k =? k'); reflexivity.
  - destruct Hwf as (Hlvl & _ & _ & _ & Hwl & Hwr).
    replace n with (maxlev - S lvl)%nat by lia.
    destruct (bit k lvl); [apply IHr|apply IHl]; auto; lia.
Qed.

(* a key of a well-formed tree is found *)
Lemma gen_member : forall t lvl k acc,
  wf_at maxlev lvl t -> In k (keys t) -> ex (fst (gen hl hm t lvl k acc)) = true.
Proof.
  induction t as [|k' v'|l IHl r IHr]; intros lvl k acc Hwf Hin.
  - contradiction.
  - unfold keys in Hin; simpl in Hin. destruct Hin as [<-|[]]. simpl.
    now rewrite Z.eqb_refl.
  - pose proof (wf_key_side maxlev lvl l r k Hwf Hin) as Hs.
    destruct Hwf as (_ & _ & _ & _ & Hwl & Hwr). simpl.
    destruct (bit k lvl); [apply IHr|apply IHl]; auto.
Qed.

Lemma gen_sibs_bound : forall t lvl k acc,
  wf_at maxlev lvl t -> (lvl < maxlev)%nat ->
  (List.length (sibs (fst (gen hl hm t lvl k acc))) + lvl < List.length acc + maxlev)%nat.
Proof.
  induction t as [|k' v'|l IHl r IHr]; intros lvl k acc Hwf Hlt; simpl.
  - rewrite rev_length. lia.
  - destruct (k =? k'); simpl; rewrite rev_length; lia.
  - destruct Hwf as (Hlvl & _ & _ & _ & Hwl & Hwr).
    destruct (bit k lvl).
    + specialize (IHr (S lvl) k (root hl hm l :: acc) Hwr ltac:(lia)). simpl in IHr. lia.
    + specialize (IHl (S lvl) k (root hl hm r :: acc) Hwl ltac:(lia)). simpl in IHl. lia.
Qed.

Lemma gen_sibs_forall (P : Z -> Prop) : (forall t, P (root hl hm t)) ->
  forall t lvl k acc, Forall P acc -> Forall P (sibs (fst (gen hl hm t lvl k acc))).
Proof.
  intros HP. induction t as [|k' v'|l IHl r IHr]; intros lvl k acc Hacc; simpl.
  - now apply Forall_rev.
  - destruct (k =? k'); simpl; now apply Forall_rev.
  - destruct (bit k lvl); [apply IHr|apply IHl]; constructor; auto.
Qed.
End Tree.

(* ------------------------------------------------------------------ *)
(* Part A: the merklizer invariant                                      *)
(* ------------------------------------------------------------------ *)

(* hashes of the tree stay inside the field (true of Poseidon; a RANGE fact, not
   injectivity) and the proof bitmap is wide enough: needed only for the statements
   about merkletree.VerifyProof with its argument checks (`t_verify`), not for the
   statements about the pure `verify_proof` *)
Definition tparams_ok (T : tparams) : Prop :=
  0 < tp_q T /\ (forall a b, tp_hl T a b < tp_q T) /\ (forall a b, tp_hm T a b < tp_q T) /\
  (tp_maxlev T <= 240)%nat.

Definition entry_uses (h : hasher) (e : rdf_entry) : Prop :=
  re_hasher e = Some h /\ p_hasher (re_key e) = Some h.

Record mz_wf (T : tparams) (m : mz) : Prop := {
  wf_tree : wf (tp_maxlev T) (mz_tree m);
  wf_nodup : NoDup (map fst (mz_entries m));
  (* every stored entry: carries the merklizer's hasher, sits under its own key,
     and the tree holds the leaf (key, value hash) *)
  wf_member : forall k e, In (k, e) (mz_entries m) ->
      entry_uses (mz_hasher m) e /\
      hash_path (mz_hasher m) (p_parts (re_key e)) = Ok k /\ k < tp_q T /\
      exists vh, mk_value_entry (mz_hasher m) (re_val e) = Ok vh /\ vh < tp_q T /\
                 In (hash_of_z k, hash_of_z vh) (leaves (mz_tree m));
  (* every leaf of the tree is a stored entry *)
  wf_leaf : forall kk vv, In (kk, vv) (leaves (mz_tree m)) ->
      kk < tp_q T /\ vv < tp_q T /\ exists k e, In (k, e) (mz_entries m) /\ kk = hash_of_z k
}.

(* the part of the invariant that survives when OTHER parties add leaves to the tree
   (a caller-provided tree shared between merklizers): no "every leaf is an entry" *)
Record mz_in (T : tparams) (m : mz) : Prop := {
  in_tree : wf (tp_maxlev T) (mz_tree m);
  in_nodup : NoDup (map fst (mz_entries m));
  in_member : forall k e, In (k, e) (mz_entries m) ->
      entry_uses (mz_hasher m) e /\
      hash_path (mz_hasher m) (p_parts (re_key e)) = Ok k /\ k < tp_q T /\
      exists vh, mk_value_entry (mz_hasher m) (re_val e) = Ok vh /\ vh < tp_q T /\
                 In (hash_of_z k, hash_of_z vh) (leaves (mz_tree m));
  in_field : forall kk vv, In (kk, vv) (leaves (mz_tree m)) -> kk < tp_q T /\ vv < tp_q T
}.

Lemma mz_wf_in T m : mz_wf T m -> mz_in T m.
Proof.
  intros H. constructor; try apply H.
  intros kk vv Hin. destruct (wf_leaf _ _ H _ _ Hin) as (A & B & _). auto.
Qed.

Section Inv.
Variable T : tparams.
Notation q := (tp_q T).
Notation maxlev := (tp_maxlev T).
Notation hl := (tp_hl T).
Notation hm := (tp_hm T).

Lemma t_add_ok t k v t' :
  t_add T t k v = Ok t' ->
  k < q /\ v < q /\ hash_of_z k < q /\ hash_of_z v < q /\
  add maxlev t 0 (hash_of_z k) (hash_of_z v) = Ok t'.
Proof.
  unfold t_add, mt_add.
  destruct (q <=? k) eqn:Hk; [discriminate|].
  destruct (q <=? v) eqn:Hv; [discriminate|].
  destruct (add maxlev t 0 (hash_of_z k) (hash_of_z v)) as [t1| | |] eqn:Ha; simpl; try discriminate.
  destruct ((q <=? hash_of_z k) || (q <=? hash_of_z v)) eqn:Ho; [discriminate|].
  intros H. inversion H; subst. apply orb_false_iff in Ho. destruct Ho as (H1 & H2).
  apply Z.leb_gt in Hk, Hv, H1, H2. auto.
Qed.

Definition norm (kv : Z * Z) : Z * Z := (hash_of_z (fst kv), hash_of_z (snd kv)).

Definition kv_ok (Hd : hasher) (e : rdf_entry) (kv : Z * Z) : Prop :=
  entry_kv Hd e = Ok kv /\ fst kv < q /\ snd kv < q /\
  hash_of_z (fst kv) < q /\ hash_of_z (snd kv) < q.

Lemma merklize_entries_spec Hd : forall es t t',
  merklize_entries T Hd t es = Ok t' ->
  exists kvs, Forall2 (kv_ok Hd) es kvs /\ add_list maxlev t (map norm kvs) = Ok t'.
Proof.
  induction es as [|e es IH]; intros t t' H; simpl in H.
  - inversion H; subst. exists []. split; [constructor|reflexivity].
  - apply bind_ok in H. destruct H as (kv & Hkv & H).
    apply bind_ok in H. destruct H as (t1 & Ha & H).
    apply t_add_ok in Ha. destruct Ha as (A & B & C & D & Ha).
    destruct (IH _ _ H) as (kvs & HF & Hl).
    exists (kv :: kvs). split.
    + constructor; auto. repeat split; auto.
    + simpl. rewrite Ha. simpl. exact Hl.
Qed.

Lemma index_entries_spec Hd : forall es m m',
  index_entries Hd es m = Ok m' ->
  exists ks, Forall2 (fun e k => entry_key_mt Hd e = Ok k) es ks /\
             (NoDup (map fst m ++ ks) -> m' = m ++ combine ks es).
Proof.
  induction es as [|e es IH]; intros m m' H; simpl in H.
  - inversion H; subst. exists []. split; [constructor|]. intros _. simpl. now rewrite app_nil_r.
  - apply bind_ok in H. destruct H as (k & Hk & H).
    destruct (IH _ _ H) as (ks & HF & Hm).
    exists (k :: ks). split; [constructor; auto|].
    intros Hnd.
    assert (Hfresh : ~ In k (map fst m)).
    { intros Hin. apply NoDup_remove_2 in Hnd. apply Hnd. apply in_or_app. now left. }
    rewrite (upsert_fresh k e m Hfresh) in Hm.
    rewrite Hm.
    + rewrite <- app_assoc. reflexivity.
    + rewrite map_app. simpl. rewrite <- app_assoc. simpl.
      (* NoDup (map fst m ++ k :: ks) *) exact Hnd.
Qed.

Lemma forall2_keys Hd : forall es kvs ks,
  Forall2 (kv_ok Hd) es kvs -> Forall2 (fun e k => entry_key_mt Hd e = Ok k) es ks ->
  ks = map fst kvs.
Proof.
  induction es as [|e es IH]; intros kvs ks H1 H2; inversion H1; inversion H2; subst; simpl.
  - reflexivity.
  - f_equal; [|eapply IH; eauto].
    destruct H3 as (Hkv & _). unfold entry_kv in Hkv.
    apply bind_ok in Hkv. destruct Hkv as (k0 & Hk0 & Hkv).
    apply bind_ok in Hkv. destruct Hkv as (v0 & _ & Hkv). inversion Hkv; subst. simpl. congruence.
Qed.

Lemma in_combine_forall2 {A B} (R : A -> B -> Prop) : forall (es : list A) (kvs : list B),
  Forall2 R es kvs -> forall e kv, In (kv, e) (combine kvs es) -> R e kv /\ In kv kvs /\ In e es.
Proof.
  induction 1 as [|e kv es kvs HR HF IH]; simpl; intros e0 kv0 Hin; [contradiction|].
  destruct Hin as [Heq|Hin].
  - inversion Heq; subst. auto.
  - destruct (IH _ _ Hin) as (A1 & B1 & C1). auto.
Qed.

Lemma combine_map_fst {A B C} (f : B -> C) : forall (kvs : list B) (es : list A) c e,
  In (c, e) (combine (map f kvs) es) -> exists kv, c = f kv /\ In (kv, e) (combine kvs es).
Proof.
  induction kvs as [|kv kvs IH]; intros es c e Hin; simpl in Hin; [contradiction|].
  destruct es as [|e0 es]; [contradiction|]. simpl in Hin. destruct Hin as [Heq|Hin].
  - inversion Heq; subst. exists kv. split; auto. now left.
  - destruct (IH _ _ _ Hin) as (kv' & A1 & B1). exists kv'. split; auto. now right.
Qed.

Lemma forall2_in_r {A B} (R : A -> B -> Prop) : forall es kvs,
  Forall2 R es kvs -> forall kv, In kv kvs -> exists e, In (kv, e) (combine kvs es) /\ R e kv.
Proof.
  induction 1 as [|e kv es kvs HR HF IH]; simpl; intros kv0 Hin; [contradiction|].
  destruct Hin as [<-|Hin].
  - exists e. split; auto.
  - destruct (IH _ Hin) as (e' & A1 & B1). exists e'. split; auto.
Qed.

Lemma forall2_length {A B} (R : A -> B -> Prop) es kvs :
  Forall2 R es kvs -> List.length es = List.length kvs.
Proof. induction 1; simpl; auto. Qed.

Lemma entry_kv_uses Hd h e kv :
  entry_uses h e -> entry_kv Hd e = Ok kv ->
  hash_path h (p_parts (re_key e)) = Ok (fst kv) /\ mk_value_entry h (re_val e) = Ok (snd kv).
Proof.
  intros (Hh & Hp) H. unfold entry_kv, entry_key_mt, entry_val_mt, path_mt_entry in H.
  rewrite Hh, Hp in H. simpl in H.
  apply bind_ok in H. destruct H as (k & Hk & H).
  apply bind_ok in H. destruct H as (v & Hv & H). inversion H; subst. auto.
Qed.

(* MerklizeJSONLD (from the entries on, fresh tree) establishes the invariant *)
Theorem merklize_from_entries_wf Hd h es m :
  Forall (entry_uses h) es ->
  merklize_from_entries T Hd h None es = Ok m ->
  mz_wf T m /\ mz_hasher m = h /\ map snd (mz_entries m) = es.
Proof.
  intros Huse H. unfold merklize_from_entries in H.
  apply bind_ok in H. destruct H as (mp & Hidx & H).
  apply bind_ok in H. destruct H as (t & Hmk & H). inversion H; subst m; clear H. simpl.
  destruct (merklize_entries_spec _ _ _ _ Hmk) as (kvs & HF & Hadd).
  destruct (add_list_ok_wf maxlev _ _ _ (wf_E maxlev) Hadd) as (Hwf & Hperm).
  simpl in Hperm. rewrite app_nil_r in Hperm.
  destruct (index_entries_spec _ _ _ _ Hidx) as (ks & HFk & Hshape).
  pose proof (forall2_keys _ _ _ _ HF HFk) as Hks. subst ks.
  assert (Hndn : NoDup (map fst (map norm kvs))).
  { apply (Permutation_NoDup (l := keys t)).
    - unfold keys. now apply Permutation_map.
    - eapply wf_nodup_keys. exact Hwf. }
  assert (Hnd : NoDup (map fst kvs)).
  { rewrite map_map in Hndn. simpl in Hndn.
    rewrite <- (map_map fst hash_of_z) in Hndn. now apply nodup_map_inv in Hndn. }
  specialize (Hshape Hnd). simpl in Hshape. subst mp.
  assert (Hlen : List.length es = List.length kvs) by (eapply forall2_length; eauto).
  assert (Hfst : map fst (combine (map fst kvs) es) = map fst kvs).
  { clear -Hlen. revert es Hlen. induction kvs as [|kv kvs IH]; intros [|e es] Hlen; simpl in *;
      try discriminate; auto. f_equal. apply IH. lia. }
  assert (Hsnd : map snd (combine (map fst kvs) es) = es).
  { clear -Hlen. revert es Hlen. induction kvs as [|kv kvs IH]; intros [|e es] Hlen; simpl in *;
      try discriminate; auto. f_equal. apply IH. lia. }
  split; [|split; [reflexivity|exact Hsnd]].
  constructor; simpl.
  - exact Hwf.
  - now rewrite Hfst.
  - intros k e Hin.
    destruct (combine_map_fst fst _ _ _ _ Hin) as (kv & -> & Hin').
    destruct (in_combine_forall2 _ _ _ HF _ _ Hin') as (Hok & Hinkv & Hine).
    destruct Hok as (Hkv & A & B & C & D).
    assert (Hu : entry_uses h e) by (rewrite Forall_forall in Huse; auto).
    destruct (entry_kv_uses _ _ _ _ Hu Hkv) as (Hp & Hv).
    repeat split; try (apply Hu); auto.
    exists (snd kv). repeat split; auto.
    apply (Permutation_in _ (Permutation_sym Hperm)).
    change (hash_of_z (fst kv), hash_of_z (snd kv)) with (norm kv). now apply in_map.
  - intros kk vv Hin.
    apply (Permutation_in _ Hperm) in Hin. apply in_map_iff in Hin.
    destruct Hin as (kv & Heq & Hinkv). unfold norm in Heq. inversion Heq; subst kk vv.
    destruct (forall2_in_r _ _ _ HF _ Hinkv) as (e & Hc & Hok).
    destruct Hok as (_ & A & B & C & D).
    repeat split; auto.
    exists (fst kv), e. split; auto.
    clear -Hc. revert es Hc. induction kvs as [|kv0 kvs IH]; intros [|e0 es] Hc; simpl in *;
      try contradiction.
    destruct Hc as [Heq|Hc]; [inversion Heq; subst; now left|right; auto].
Qed.

Lemma wrap_entry_uses h es : Forall (entry_uses h) (map (wrap_entry h (Some h)) es).
Proof. apply Forall_forall. intros e Hin. apply in_map_iff in Hin. destruct Hin as (x & <- & _). split; reflexivity. Qed.

(* MerklizeJSONLD from the normalised dataset on *)
Theorem merklize_ds_wf Hd F cfg ds m :
  merklize_ds T Hd F cfg None ds = Ok m ->
  mz_wf T m /\ mz_hasher m = hasher_or Hd cfg.
Proof.
  unfold merklize_ds, entries_from_rdf_h. intros H. simpl in H.
  apply bind_ok in H. destruct H as (es & Hes & H).
  apply bind_ok in Hes. destruct Hes as (es0 & _ & Hes). inversion Hes; subst es; clear Hes.
  destruct (merklize_from_entries_wf _ _ _ _ (wrap_entry_uses _ es0) H) as (A & B & _). auto.
Qed.

(* ---- consequences of the invariant ---- *)
Variable m : mz.
Hypothesis Hwf : mz_in T m.

Lemma t_gen_wf k :
  (1 <= maxlev)%nat -> k < q ->
  t_gen T (mz_tree m) k = Ok (gen hl hm (mz_tree m) 0 (hash_of_z k) []).
Proof.
  intros Hml Hk. unfold t_gen, mt_gen. apply Z.leb_gt in Hk. rewrite Hk.
  pose proof (gen_b_gen hl hm maxlev (mz_tree m) 0 (hash_of_z k) [] (in_tree _ _ Hwf) ltac:(lia)) as G.
  now rewrite Nat.sub_0_r in G.
Qed.

Lemma root_lt_q : tparams_ok T -> forall t, root hl hm t < q.
Proof. intros (A & B & C & _) t. destruct t; simpl; auto. Qed.

(* a generated proof passes the argument checks of merkletree.RootFromProof *)
Lemma verify_checked k v p v0 :
  tparams_ok T -> (1 <= maxlev)%nat ->
  k < q -> v < q ->
  gen hl hm (mz_tree m) 0 (hash_of_z k) [] = (p, v0) ->
  (ex p = true -> v0 = hash_of_z v /\ hash_of_z k < q /\ hash_of_z v < q) ->
  t_verify T (mz_root T m) p k v = Ok true.
Proof.
  intros Hok Hml Hk Hv Hg Hex.
  pose proof (completeness hl hm _ _ _ _ Hg) as Hc.
  pose proof (gen_sibs_bound hl hm maxlev (mz_tree m) 0 (hash_of_z k) [] (in_tree _ _ Hwf) ltac:(lia)) as Hlen.
  pose proof (gen_sibs_forall hl hm (fun s => (q <=? s) = false)
                (fun t => proj2 (Z.leb_gt _ _) (root_lt_q Hok t)) (mz_tree m) 0 (hash_of_z k) []
                (Forall_nil _)) as Hsib.
  rewrite Hg in Hlen, Hsib. simpl in Hlen, Hsib.
  destruct Hok as (Hq0 & Hhl & Hhm & Hml240).
  unfold t_verify, mt_verify_proof, mt_root_from_proof.
  apply Z.leb_gt in Hk, Hv. rewrite Hk, Hv.
  assert (Hl : Nat.ltb notempties_bits (List.length (sibs p)) = false).
  { apply Nat.ltb_ge. unfold notempties_bits. lia. }
  unfold Model.root_from_proof, Model.proof_mid in Hc.
  destruct (ex p) eqn:He.
  - destruct (Hex eq_refl) as (-> & A & B). apply Z.leb_gt in A, B. rewrite A, B. simpl.
    rewrite Hl, (existsb_false_forall (fun s => q <=? s) _ Hsib). injection Hc as Hc'. cbn [bind]. unfold mz_root, t_root. rewrite Hc', Z.eqb_refl. reflexivity.
  - destruct (aux p) as [(ak, av)|] eqn:Ha.
    + destruct (gen_aux_leaf hl hm _ _ _ _ _ _ _ _ Hg Ha) as (_ & Hne & _ & Hin).
      destruct (in_field _ _ Hwf _ _ Hin) as (A & B).
      destruct (Z.eqb_spec (hash_of_z k) ak) as [Heq|_]; [congruence|].
      apply Z.leb_gt in A, B. rewrite A, B. simpl.
      rewrite Hl, (existsb_false_forall (fun s => q <=? s) _ Hsib). injection Hc as Hc'. cbn [bind]. unfold mz_root, t_root. rewrite Hc', Z.eqb_refl. reflexivity.
    + simpl. rewrite Hl, (existsb_false_forall (fun s => q <=? s) _ Hsib). injection Hc as Hc'. cbn [bind]. unfold mz_root, t_root. rewrite Hc', Z.eqb_refl. reflexivity.
Qed.

(* ---- member paths ---- *)
Theorem proof_of_member Hd p k e :
  path_mt_entry Hd p = Ok k -> In (k, e) (mz_entries m) ->
  exists pr vh,
    let v := mkvalue (re_val e) (Some (mz_hasher m)) in
    mz_proof T Hd m p = Ok (pr, Some v) /\ ex pr = true /\
    value_mt_entry v = Ok vh /\
    verify_proof hl hm (mz_root T m) pr (hash_of_z k) (hash_of_z vh) = true /\
    (tparams_ok T -> t_verify T (mz_root T m) pr k vh = Ok true).
Proof.
  intros Hp Hin.
  destruct (in_member _ _ Hwf _ _ Hin) as (Hu & Hk & Hkq & vh & Hv & Hvq & Hleaf).
  assert (Hml : (1 <= maxlev)%nat).
  { destruct (wf_nonempty_maxlev maxlev _ _ (in_tree _ _ Hwf)) as [He|]; auto.
    rewrite He in Hleaf. contradiction. }
  destruct (gen hl hm (mz_tree m) 0 (hash_of_z k) []) as (pr, v0) eqn:Hg.
  assert (Hex : ex pr = true).
  { pose proof (gen_member hl hm maxlev (mz_tree m) 0 (hash_of_z k) [] (in_tree _ _ Hwf)) as G.
    rewrite Hg in G. apply G. apply in_keys. eauto. }
  assert (Hv0 : v0 = hash_of_z vh).
  { pose proof (gen_ex_leaf hl hm _ _ _ _ _ _ Hg Hex) as Hin0.
    eapply nodup_fun; eauto. eapply wf_nodup_keys. exact (in_tree _ _ Hwf). }
  exists pr, vh. cbv zeta. split; [|split; [exact Hex|split; [exact Hv|split]]].
  - unfold mz_proof. rewrite Hp. simpl. rewrite (t_gen_wf k Hml Hkq), Hg. simpl. rewrite Hex.
    rewrite (assoc_nodup k _ e (in_nodup _ _ Hwf) Hin). reflexivity.
  - pose proof (completeness_verify hl hm _ _ _ _ Hg) as Hc. rewrite Hex, Hv0 in Hc. exact Hc.
  - intros Hok. eapply verify_checked; eauto.
    intros _. destruct (in_field _ _ Hwf _ _ Hleaf) as (A & B). auto.
Qed.

(* ---- non-member paths ---- *)
Theorem proof_of_nonmember Hd p k :
  (1 <= maxlev)%nat ->
  path_mt_entry Hd p = Ok k -> k < q ->
  ~ In (hash_of_z k) (keys (mz_tree m)) ->
  exists pr,
    mz_proof T Hd m p = Ok (pr, None) /\ ex pr = false /\
    verify_proof hl hm (mz_root T m) pr (hash_of_z k) 0 = true /\
    (tparams_ok T -> forall v, v < q -> t_verify T (mz_root T m) pr k v = Ok true).
Proof.
  intros Hml Hp Hkq Hnm.
  destruct (gen hl hm (mz_tree m) 0 (hash_of_z k) []) as (pr, v0) eqn:Hg.
  assert (Hex : ex pr = false).
  { destruct (ex pr) eqn:He; auto. exfalso.
    pose proof (gen_ex_leaf hl hm _ _ _ _ _ _ Hg He) as Hin0.
    apply Hnm. apply in_keys. eauto. }
  exists pr. split; [|split; [exact Hex|split]].
  - unfold mz_proof. rewrite Hp. simpl. rewrite (t_gen_wf k Hml Hkq), Hg. simpl. now rewrite Hex.
  - pose proof (completeness_verify hl hm _ _ _ _ Hg) as Hc. now rewrite Hex in Hc.
  - intros Hok v Hv. eapply verify_checked; eauto. intros He. congruence.
Qed.

(* ---- Entry / JSONLDType vs existence ---- *)
Theorem entry_iff_existence Hd p :
  ((exists e, mz_entry Hd m p = Ok e) <-> (exists s, mz_jsonld_type Hd m p = Ok s)) /\
  ((exists e, mz_entry Hd m p = Ok e) <->
   (exists pr ov, mz_proof T Hd m p = Ok (pr, ov) /\ ex pr = true)).
Proof.
  split; split.
  - intros (e & He). exists (re_dt e). unfold mz_jsonld_type. now rewrite He.
  - intros (s & Hs). unfold mz_jsonld_type in Hs. apply bind_ok in Hs.
    destruct Hs as (e & He & _). eauto.
  - intros (e & He). unfold mz_entry in He. apply bind_ok in He. destruct He as (k & Hk & He).
    destruct (assoc Z.eqb k (mz_entries m)) as [e'|] eqn:Ha; [|discriminate].
    apply assoc_in in Ha.
    destruct (proof_of_member Hd p k e' Hk Ha) as (pr & vh & A & B & _). eauto.
  - intros (pr & ov & Hpr & Hex). unfold mz_proof in Hpr.
    apply bind_ok in Hpr. destruct Hpr as (k & Hk & Hpr).
    apply bind_ok in Hpr. destruct Hpr as (pv & Hg & Hpr).
    destruct (ex (fst pv)) eqn:He.
    + destruct (assoc Z.eqb k (mz_entries m)) as [e|] eqn:Ha; [|discriminate].
      exists e. unfold mz_entry. rewrite Hk. simpl. now rewrite Ha.
    + inversion Hpr; subst. congruence.
Qed.

End Inv.

(* on the merklizer's own tree every leaf is an entry: "no member has this tree key"
   is "the tree does not have this key" *)
Lemma not_member_not_key T m : mz_wf T m -> forall k,
  (forall k' e, In (k', e) (mz_entries m) -> hash_of_z k' <> hash_of_z k) ->
  ~ In (hash_of_z k) (keys (mz_tree m)).
Proof.
  intros Hwf k Hnm Hin. apply in_keys in Hin. destruct Hin as (vv & Hin).
  destruct (wf_leaf _ _ Hwf _ _ Hin) as (_ & _ & k' & e & Hin' & Heq).
  apply (Hnm _ _ Hin'). congruence.
Qed.

(* document-level corollaries of Part A (these are restated in Properties/C02.v) *)
Section C02.
Variable T : tparams.
Variables (Hd : hasher) (F : floats) (cfg : option hasher) (ds : dataset) (m : mz).
Hypothesis Hmz : merklize_ds T Hd F cfg None ds = Ok m.

Theorem c02_member : forall Hd' k e,
  In (k, e) (mz_entries m) ->
  exists pr v vh,
    mz_proof T Hd' m (re_key e) = Ok (pr, Some v) /\ ex pr = true /\
    v_val v = re_val e /\
    path_mt_entry Hd' (re_key e) = Ok k /\ value_mt_entry v = Ok vh /\
    verify_proof (tp_hl T) (tp_hm T) (mz_root T m) pr (hash_of_z k) (hash_of_z vh) = true /\
    (tparams_ok T -> t_verify T (mz_root T m) pr k vh = Ok true).
Proof.
  intros Hd' k e Hin. destruct (merklize_ds_wf _ _ _ _ _ _ Hmz) as (Hwf & _).
  destruct (wf_member _ _ Hwf _ _ Hin) as ((_ & Hph) & Hk & _).
  assert (Hp : path_mt_entry Hd' (re_key e) = Ok k).
  { unfold path_mt_entry. rewrite Hph. exact Hk. }
  destruct (proof_of_member T m (mz_wf_in _ _ Hwf) Hd' (re_key e) k e Hp Hin) as (pr & vh & A & B & C & D & E0).
  exists pr, (mkvalue (re_val e) (Some (mz_hasher m))), vh. repeat split; auto.
Qed.

(* the same for ANY path that hashes to a member key (e.g. one rebuilt by the caller
   through the merklizer's Options) *)
Theorem c02_member_path : forall Hd' p k e,
  path_mt_entry Hd' p = Ok k -> In (k, e) (mz_entries m) ->
  exists pr v vh,
    mz_proof T Hd' m p = Ok (pr, Some v) /\ ex pr = true /\ v_val v = re_val e /\
    value_mt_entry v = Ok vh /\
    verify_proof (tp_hl T) (tp_hm T) (mz_root T m) pr (hash_of_z k) (hash_of_z vh) = true /\
    (tparams_ok T -> t_verify T (mz_root T m) pr k vh = Ok true).
Proof.
  intros Hd' p k e Hp Hin. destruct (merklize_ds_wf _ _ _ _ _ _ Hmz) as (Hwf & _).
  destruct (proof_of_member T m (mz_wf_in _ _ Hwf) Hd' p k e Hp Hin) as (pr & vh & A & B & C & D & E0).
  exists pr, (mkvalue (re_val e) (Some (mz_hasher m))), vh. repeat split; auto.
Qed.

Theorem c02_nonmember : forall Hd' p k,
  (1 <= tp_maxlev T)%nat ->
  path_mt_entry Hd' p = Ok k -> k < tp_q T ->
  (forall k' e, In (k', e) (mz_entries m) -> hash_of_z k' <> hash_of_z k) ->
  exists pr,
    mz_proof T Hd' m p = Ok (pr, None) /\ ex pr = false /\
    verify_proof (tp_hl T) (tp_hm T) (mz_root T m) pr (hash_of_z k) 0 = true /\
    (tparams_ok T -> forall v, v < tp_q T -> t_verify T (mz_root T m) pr k v = Ok true).
Proof.
  intros Hd' p k Hml Hp Hk Hnm. destruct (merklize_ds_wf _ _ _ _ _ _ Hmz) as (Hwf & _).
  exact (proof_of_nonmember T m (mz_wf_in _ _ Hwf) Hd' p k Hml Hp Hk (not_member_not_key T m Hwf k Hnm)).
Qed.

Lemma hash_of_z_id z : 0 <= z < 2 ^ 256 -> hash_of_z z = z.
Proof. intros H. unfold hash_of_z. rewrite Z.abs_eq by lia. apply Z.mod_small. exact H. Qed.

(* for keys inside the field (every real hasher): "not a key of the entries map" suffices *)
Theorem c02_nonmember_infield : forall Hd' p k,
  (1 <= tp_maxlev T)%nat -> tp_q T <= 2 ^ 256 ->
  path_mt_entry Hd' p = Ok k -> 0 <= k < tp_q T ->
  (forall k' e, In (k', e) (mz_entries m) -> 0 <= k') ->
  assoc Z.eqb k (mz_entries m) = None ->
  exists pr,
    mz_proof T Hd' m p = Ok (pr, None) /\ ex pr = false /\
    verify_proof (tp_hl T) (tp_hm T) (mz_root T m) pr k 0 = true /\
    (tparams_ok T -> forall v, v < tp_q T -> t_verify T (mz_root T m) pr k v = Ok true).
Proof.
  intros Hd' p k Hml Hq Hp Hk Hpos Hnone. destruct (merklize_ds_wf _ _ _ _ _ _ Hmz) as (Hwf & _).
  assert (Hnm : forall k' e, In (k', e) (mz_entries m) -> hash_of_z k' <> hash_of_z k).
  { intros k' e Hin Heq. destruct (wf_member _ _ Hwf _ _ Hin) as (_ & _ & Hk' & _).
    rewrite (hash_of_z_id k), (hash_of_z_id k') in Heq by (specialize (Hpos _ _ Hin); lia).
    subst k'. rewrite (assoc_nodup k _ e (wf_nodup _ _ Hwf) Hin) in Hnone. discriminate. }
  destruct (proof_of_nonmember T m (mz_wf_in _ _ Hwf) Hd' p k Hml Hp ltac:(lia)
              (not_member_not_key T m Hwf k Hnm)) as (pr & A & B & C & D).
  exists pr. rewrite (hash_of_z_id k) in C by lia. auto.
Qed.

Theorem c02_entry_iff : forall Hd' p,
  ((exists e, mz_entry Hd' m p = Ok e) <-> (exists s, mz_jsonld_type Hd' m p = Ok s)) /\
  ((exists e, mz_entry Hd' m p = Ok e) <->
   (exists pr ov, mz_proof T Hd' m p = Ok (pr, ov) /\ ex pr = true)).
Proof.
  intros Hd' p. destruct (merklize_ds_wf _ _ _ _ _ _ Hmz) as (Hwf & _).
  exact (entry_iff_existence T m (mz_wf_in _ _ Hwf) Hd' p).
Qed.

(* the entries map holds exactly the entries of the document, in order, each under
   its own key: nothing is dropped or added between EntriesFromRDF and the map *)
Theorem c02_entries_stored :
  exists es0,
    entries_from_rdf F (h_prime (hasher_or Hd cfg)) ds = Ok es0 /\
    map snd (mz_entries m) =
      map (wrap_entry (hasher_or Hd cfg) (Some (hasher_or Hd cfg))) es0 /\
    List.length (leaves (mz_tree m)) = List.length es0.
Proof.
  pose proof Hmz as H. unfold merklize_ds, entries_from_rdf_h in H. simpl in H.
  apply bind_ok in H. destruct H as (es & Hes & Hfrom).
  apply bind_ok in Hes. destruct Hes as (es0 & Hes0 & Hes). inversion Hes; subst es; clear Hes.
  exists es0. split; [exact Hes0|].
  destruct (merklize_from_entries_wf T _ _ _ _ (wrap_entry_uses _ es0) Hfrom) as (Hwf & _ & Hsnd).
  split; [exact Hsnd|].
  (* leaves <-> entries: same number *)
  unfold merklize_from_entries in Hfrom.
  apply bind_ok in Hfrom. destruct Hfrom as (mp & _ & Hfrom).
  apply bind_ok in Hfrom. destruct Hfrom as (t & Hmk & Hfrom). inversion Hfrom; subst m; clear Hfrom.
  simpl. destruct (merklize_entries_spec T _ _ _ _ Hmk) as (kvs & HF & Hadd).
  destruct (add_list_ok_wf (tp_maxlev T) _ _ _ (wf_E _) Hadd) as (_ & Hperm).
  rewrite (Permutation_length Hperm). simpl. rewrite app_nil_r, map_length.
  rewrite <- (forall2_length _ _ _ HF). now rewrite map_length.
Qed.

(* a Value is returned exactly with an existence proof *)
Theorem c02_value_iff_existence : forall Hd' p pr ov,
  mz_proof T Hd' m p = Ok (pr, ov) -> (ex pr = true <-> exists v, ov = Some v).
Proof.
  intros Hd' p pr ov H. unfold mz_proof in H.
  apply bind_ok in H. destruct H as (k & _ & H). apply bind_ok in H. destruct H as (pv & _ & H).
  destruct (ex (fst pv)) eqn:He.
  - destruct (assoc Z.eqb k (mz_entries m)); [|discriminate]. simpl in H. inversion H; subst.
    split; eauto.
  - inversion H; subst. split; [congruence|]. intros (v & Hv). discriminate.
Qed.
End C02.

(* ------------------------------------------------------------------ *)
(* Part A': a caller-provided tree shared by several merklizers         *)
(* ------------------------------------------------------------------ *)
Section SharedTree.
Variable T : tparams.
Notation q := (tp_q T).
Notation maxlev := (tp_maxlev T).

Lemma merklize_entries_st_spec Hd : forall es t,
  merklize_entries T Hd t es =
  (let '(t', r) := merklize_entries_st T Hd t es in _ <- r ;; Ok t').
Proof.
  induction es as [|e es IH]; intros t; simpl; [reflexivity|].
  destruct (entry_kv Hd e) as [kv| | |]; simpl; try reflexivity.
  destruct (t_add T t (fst kv) (snd kv)) as [t1| | |]; simpl; try reflexivity.
  apply IH.
Qed.

(* t' is t after some successful Add calls *)
Inductive grows : tree -> tree -> Prop :=
| grows_refl t : grows t t
| grows_add t k v t1 t2 : t_add T t k v = Ok t1 -> grows t1 t2 -> grows t t2.

Lemma merklize_entries_st_grows Hd : forall es t,
  grows t (fst (merklize_entries_st T Hd t es)).
Proof.
  induction es as [|e es IH]; intros t; simpl; [constructor|].
  destruct (entry_kv Hd e) as [kv| | |]; simpl; try constructor.
  destruct (t_add T t (fst kv) (snd kv)) as [t1| | |] eqn:Ha; simpl; try constructor.
  eapply grows_add; eauto.
Qed.

Definition tree_ok (t : tree) : Prop :=
  wf maxlev t /\ forall kk vv, In (kk, vv) (leaves t) -> kk < q /\ vv < q.

Lemma tree_ok_E : tree_ok E.
Proof. split; [apply wf_E|intros kk vv []]. Qed.

Lemma tree_ok_add t k v t' :
  tree_ok t -> t_add T t k v = Ok t' ->
  tree_ok t' /\ (forall x, In x (leaves t) -> In x (leaves t')).
Proof.
  intros (Hwf & Hf) Ha. apply t_add_ok in Ha. destruct Ha as (_ & _ & A & B & Ha).
  destruct (wf_add maxlev _ _ _ _ Hwf Ha) as (Hwf' & Hperm).
  split; [split; auto|].
  - intros kk vv Hin. apply (Permutation_in _ Hperm) in Hin. destruct Hin as [Heq|Hin]; auto.
    inversion Heq; subst. auto.
  - intros x Hin. apply (Permutation_in _ (Permutation_sym Hperm)). now right.
Qed.

Lemma grows_ok t t' :
  grows t t' -> tree_ok t -> tree_ok t' /\ (forall x, In x (leaves t) -> In x (leaves t')).
Proof.
  induction 1 as [t|t k v t1 t2 Ha Hg IH]; intros Hok; [auto|].
  destruct (tree_ok_add _ _ _ _ Hok Ha) as (Hok1 & Hsub1).
  destruct (IH Hok1) as (Hok2 & Hsub2). auto.
Qed.

(* a merklizer keeps its guarantees when the tree it refers to grows *)
Lemma mz_in_grows m t' :
  mz_in T m -> grows (mz_tree m) t' -> mz_in T (with_tree m t').
Proof.
  intros Hin Hg.
  destruct (grows_ok _ _ Hg (conj (in_tree _ _ Hin) (in_field _ _ Hin))) as ((Hwf & Hf) & Hsub).
  constructor; simpl; auto.
  - apply Hin.
  - intros k e Hine. destruct (in_member _ _ Hin _ _ Hine) as (A & B & C & vh & D0 & E0 & F0).
    repeat split; try apply A; auto. exists vh. auto.
Qed.

(* MerklizeJSONLD on a non-empty shared tree *)
Lemma merklize_shared_in Hd h es mp t t' :
  Forall (entry_uses h) es -> tree_ok t ->
  index_entries Hd es [] = Ok mp -> merklize_entries T Hd t es = Ok t' ->
  mz_in T (mkmz mp t' h).
Proof.
  intros Huse (Hwft & Hft) Hidx Hmk.
  destruct (merklize_entries_spec T _ _ _ _ Hmk) as (kvs & HF & Hadd).
  destruct (add_list_ok_wf maxlev _ _ _ Hwft Hadd) as (Hwf & Hperm).
  destruct (index_entries_spec _ _ _ _ Hidx) as (ks & HFk & Hshape).
  pose proof (forall2_keys T _ _ _ _ HF HFk) as Hks. subst ks.
  assert (Hndn : NoDup (map fst (map (norm) kvs))).
  { assert (H0 : NoDup (map fst (map norm kvs ++ leaves t))).
    { apply (Permutation_NoDup (l := keys t')).
      - unfold keys. now apply Permutation_map.
      - eapply wf_nodup_keys. exact Hwf. }
    rewrite map_app in H0. now apply nodup_app_l in H0. }
  assert (Hnd : NoDup (map fst kvs)).
  { rewrite map_map in Hndn. simpl in Hndn.
    rewrite <- (map_map fst hash_of_z) in Hndn. now apply nodup_map_inv in Hndn. }
  specialize (Hshape Hnd). simpl in Hshape. subst mp.
  assert (Hlen : List.length es = List.length kvs) by (eapply forall2_length; eauto).
  assert (Hfst : map fst (combine (map fst kvs) es) = map fst kvs).
  { clear -Hlen. revert es Hlen. induction kvs as [|kv kvs IH]; intros [|e es] Hlen; simpl in *;
      try discriminate; auto. f_equal. apply IH. lia. }
  constructor; simpl.
  - exact Hwf.
  - now rewrite Hfst.
  - intros k e Hin.
    destruct (combine_map_fst fst _ _ _ _ Hin) as (kv & -> & Hin').
    destruct (in_combine_forall2 _ _ _ HF _ _ Hin') as (Hok & Hinkv & Hine).
    destruct Hok as (Hkv & A & B & C & D0).
    assert (Hu : entry_uses h e) by (rewrite Forall_forall in Huse; auto).
    destruct (entry_kv_uses _ _ _ _ Hu Hkv) as (Hp & Hv).
    repeat split; try (apply Hu); auto.
    exists (snd kv). repeat split; auto.
    apply (Permutation_in _ (Permutation_sym Hperm)). apply in_or_app. left.
    change (hash_of_z (fst kv), hash_of_z (snd kv)) with (norm kv). now apply in_map.
  - intros kk vv Hin. apply (Permutation_in _ Hperm) in Hin. apply in_app_or in Hin.
    destruct Hin as [Hin|Hin]; [|auto].
    apply in_map_iff in Hin. destruct Hin as (kv & Heq & Hinkv). unfold norm in Heq.
    inversion Heq; subst kk vv.
    destruct (forall2_in_r _ _ _ HF _ Hinkv) as (e & _ & Hok).
    destruct Hok as (_ & A & B & C & D0). auto.
Qed.

Definition sh_inv (st : shared) : Prop :=
  tree_ok (sh_tree st) /\ Forall (fun m => mz_in T (with_tree m (sh_tree st))) (sh_mzs st).

Lemma sh_inv_grow st t' :
  sh_inv st -> grows (sh_tree st) t' -> sh_inv (mksh t' (sh_mzs st)).
Proof.
  intros (Hok & Hall) Hg. split; simpl.
  - now destruct (grows_ok _ _ Hg Hok).
  - rewrite Forall_forall in *. intros m Hm.
    exact (mz_in_grows (with_tree m (sh_tree st)) t' (Hall m Hm) Hg).
Qed.

Lemma gstep_inv Hd st g : sh_inv st -> sh_inv (fst (gstep_run T Hd st g)).
Proof.
  intros Hinv. destruct g as [cfg es|k v|i s]; simpl.
  - set (h := hasher_or Hd cfg). set (es' := map (wrap_entry h (Some h)) es).
    destruct (index_entries Hd es' []) as [mp| | |] eqn:Hidx; simpl; auto.
    pose proof (merklize_entries_st_grows Hd es' (sh_tree st)) as Hg.
    pose proof (merklize_entries_st_spec Hd es' (sh_tree st)) as Hspec.
    destruct (merklize_entries_st T Hd (sh_tree st) es') as (t', r) eqn:Hst. simpl in Hg.
    pose proof (sh_inv_grow st t' Hinv Hg) as Hinv'.
    destruct r as [u| | |]; simpl; auto.
    destruct Hinv' as (Hok' & Hall'). split; simpl; auto.
    apply Forall_app. split; auto. constructor; [|constructor].
    simpl in Hspec.
    exact (merklize_shared_in Hd h es' mp (sh_tree st) t' (wrap_entry_uses h es)
             (proj1 Hinv) Hidx Hspec).
  - destruct (t_add T (sh_tree st) k v) as [t'| | |] eqn:Ha; simpl; auto.
    apply (sh_inv_grow st t' Hinv). eapply grows_add; [exact Ha|constructor].
  - destruct (nth_error (sh_mzs st) i); simpl; auto.
Qed.

Lemma grun_inv D : forall gs i st, sh_inv st -> sh_inv (fst (grun T D i st gs)).
Proof.
  induction gs as [|g gs IH]; intros i st Hinv; simpl; auto.
  pose proof (gstep_inv (D i) st g Hinv) as H1.
  destruct (gstep_run T (D i) st g) as (st1, o). simpl in H1.
  specialize (IH (S i) st1 H1). destruct (grun T D (S i) st1 gs) as (st2, os). exact IH.
Qed.

Lemma sh_inv_init : sh_inv shared_init.
Proof. split; [apply tree_ok_E|constructor]. Qed.

(* after ANY history on the shared tree (other documents merklized into it — also
   failing ones that leave leaves behind —, direct Add calls, any caller steps), every
   merklizer created so far still satisfies the invariant w.r.t. the CURRENT tree *)
Theorem shared_history_in D gs m :
  let st := fst (grun T D 0 shared_init gs) in
  In m (sh_mzs st) -> mz_in T (with_tree m (sh_tree st)).
Proof.
  intros st Hm. destruct (grun_inv D gs 0 shared_init sh_inv_init) as (_ & Hall).
  rewrite Forall_forall in Hall. now apply Hall.
Qed.

Theorem c02_shared_member D gs m Hd' p k e :
  let st := fst (grun T D 0 shared_init gs) in
  let m' := with_tree m (sh_tree st) in
  In m (sh_mzs st) -> path_mt_entry Hd' p = Ok k -> In (k, e) (mz_entries m) ->
  exists pr v vh,
    mz_proof T Hd' m' p = Ok (pr, Some v) /\ ex pr = true /\ v_val v = re_val e /\
    value_mt_entry v = Ok vh /\
    verify_proof (tp_hl T) (tp_hm T) (mz_root T m') pr (hash_of_z k) (hash_of_z vh) = true /\
    (tparams_ok T -> t_verify T (mz_root T m') pr k vh = Ok true).
Proof.
  intros st m' Hm Hp Hin. pose proof (shared_history_in D gs m Hm) as Hinv. fold st in Hinv.
  destruct (proof_of_member T m' Hinv Hd' p k e Hp Hin) as (pr & vh & A & B & C & D0 & E0).
  exists pr, (mkvalue (re_val e) (Some (mz_hasher m'))), vh. repeat split; auto.
Qed.

Theorem c02_shared_nonmember D gs m Hd' p k :
  let st := fst (grun T D 0 shared_init gs) in
  let m' := with_tree m (sh_tree st) in
  In m (sh_mzs st) -> (1 <= tp_maxlev T)%nat ->
  path_mt_entry Hd' p = Ok k -> k < tp_q T ->
  ~ In (hash_of_z k) (keys (sh_tree st)) ->
  exists pr,
    mz_proof T Hd' m' p = Ok (pr, None) /\ ex pr = false /\
    verify_proof (tp_hl T) (tp_hm T) (mz_root T m') pr (hash_of_z k) 0 = true /\
    (tparams_ok T -> forall v, v < tp_q T -> t_verify T (mz_root T m') pr k v = Ok true).
Proof.
  intros st m' Hm Hml Hp Hk Hnk. pose proof (shared_history_in D gs m Hm) as Hinv. fold st in Hinv.
  exact (proof_of_nonmember T m' Hinv Hd' p k Hml Hp Hk Hnk).
Qed.
End SharedTree.

(* ------------------------------------------------------------------ *)
(* Part B: non-interference (C16)                                       *)
(* ------------------------------------------------------------------ *)
Section NonInterference.
Variable T : tparams.

Lemma entry_kv_indep h e Hd Hd' : entry_uses h e -> entry_kv Hd e = entry_kv Hd' e.
Proof.
  intros (Hh & Hp). unfold entry_kv, entry_key_mt, entry_val_mt, path_mt_entry.
  now rewrite Hh, Hp.
Qed.

Lemma merklize_entries_indep h Hd Hd' : forall es t,
  Forall (entry_uses h) es -> merklize_entries T Hd t es = merklize_entries T Hd' t es.
Proof.
  induction es as [|e es IH]; intros t Hu; simpl; [reflexivity|].
  inversion Hu as [|x xs Hx Hxs]; subst.
  rewrite (entry_kv_indep h e Hd Hd' Hx).
  destruct (entry_kv Hd' e) as [kv| | |]; simpl; try reflexivity.
  destruct (t_add T t (fst kv) (snd kv)); simpl; auto.
Qed.

Lemma index_entries_indep h Hd Hd' : forall es mp,
  Forall (entry_uses h) es -> index_entries Hd es mp = index_entries Hd' es mp.
Proof.
  induction es as [|e es IH]; intros mp Hu; simpl; [reflexivity|].
  inversion Hu as [|x xs Hx Hxs]; subst. destruct Hx as (Hh & Hp).
  unfold entry_key_mt, path_mt_entry. rewrite Hp. simpl.
  destruct (hash_path h (p_parts (re_key e))); simpl; auto.
Qed.

(* MerklizeJSONLD with WithHasher(Hc) does not depend on the package default hasher *)
Theorem merklize_ds_indep F Hc t0 ds Hd Hd' :
  merklize_ds T Hd F (Some Hc) t0 ds = merklize_ds T Hd' F (Some Hc) t0 ds.
Proof.
  unfold merklize_ds, entries_from_rdf_h. simpl.
  destruct (entries_from_rdf F (h_prime Hc) ds) as [es| | |]; simpl; try reflexivity.
  unfold merklize_from_entries.
  rewrite (index_entries_indep Hc Hd Hd' _ [] (wrap_entry_uses Hc es)).
  rewrite (merklize_entries_indep Hc Hd Hd' _ _ (wrap_entry_uses Hc es)).
  reflexivity.
Qed.

Lemma run_step_indep m Hd Hd' s :
  (forall k e, In (k, e) (mz_entries m) -> entry_uses (mz_hasher m) e) ->
  via_options s = true -> run_step T Hd m s = run_step T Hd' m s.
Proof.
  intros Hu Hv.
  assert (Hmk : forall pk parts, pk <> PKPackage ->
            mk_path Hd m pk parts = mkpath parts (Some (mz_hasher m)) /\
            mk_path Hd' m pk parts = mkpath parts (Some (mz_hasher m))).
  { intros pk parts Hpk. destruct pk; try contradiction; split; reflexivity. }
  destruct s as [|pk parts|pk parts|pk parts|pk parts|parts v|v]; try reflexivity;
    try (assert (Hpk : pk <> PKPackage) by (intros ->; discriminate);
         destruct (Hmk pk parts Hpk) as (E1 & E2); simpl; rewrite E1, E2; try reflexivity).
  - (* SEntry *)
    f_equal. unfold mz_entry, path_mt_entry. simpl.
    destruct (hash_path (mz_hasher m) parts) as [k| | |]; simpl; try reflexivity.
    destruct (assoc Z.eqb k (mz_entries m)) as [e|] eqn:Ha; simpl; try reflexivity.
    apply assoc_in in Ha. now rewrite (entry_kv_indep _ e Hd Hd' (Hu _ _ Ha)).
  - (* SNewEntry *)
    simpl. destruct parts; reflexivity.
Qed.

Lemma run_steps_indep m D D' : forall ss i,
  (forall k e, In (k, e) (mz_entries m) -> entry_uses (mz_hasher m) e) ->
  forallb via_options ss = true -> run_steps T D i m ss = run_steps T D' i m ss.
Proof.
  induction ss as [|s ss IH]; intros i Hu Hv; simpl; [reflexivity|].
  simpl in Hv. apply andb_true_iff in Hv. destruct Hv as (Hs & Hss).
  rewrite (run_step_indep m (D i) (D' i) s Hu Hs). f_equal. now apply IH.
Qed.

(* NON-INTERFERENCE: once a hasher is configured, nothing a caller can observe through
   objects built from the merklizer's own options depends on the package default
   hasher — whatever it is at the time of each call *)
Theorem noninterference F (D D' : nat -> hasher) Hc ds ss :
  forallb via_options ss = true ->
  run T F D (Some Hc) ds ss = run T F D' (Some Hc) ds ss.
Proof.
  intros Hv. unfold run. rewrite (merklize_ds_indep F Hc None ds (D O) (D' O)).
  destruct (merklize_ds T (D' O) F (Some Hc) None ds) as [m| | |] eqn:Hm; simpl; try reflexivity.
  f_equal. apply run_steps_indep; auto.
  destruct (merklize_ds_wf _ _ _ _ _ _ Hm) as (Hwf & _).
  intros k e Hin. now destruct (wf_member _ _ Hwf _ _ Hin).
Qed.

(* ---- the same on a shared caller-provided tree, for whole histories ---- *)
Lemma merklize_entries_st_indep h Hd Hd' : forall es t,
  Forall (entry_uses h) es -> merklize_entries_st T Hd t es = merklize_entries_st T Hd' t es.
Proof.
  induction es as [|e es IH]; intros t Hu; simpl; [reflexivity|].
  inversion Hu as [|x xs Hx Hxs]; subst.
  rewrite (entry_kv_indep h e Hd Hd' Hx).
  destruct (entry_kv Hd' e) as [kv| | |]; simpl; try reflexivity.
  destruct (t_add T t (fst kv) (snd kv)); simpl; auto.
Qed.

Lemma upsert_forall {V} (P : V -> Prop) k v (mp : list (Z * V)) :
  Forall P (map snd mp) -> P v -> Forall P (map snd (upsert Z.eqb k v mp)).
Proof.
  induction mp as [|(a, b) mp IH]; simpl; intros Hm Hv.
  - constructor; auto.
  - inversion Hm; subst. destruct (a =? k); simpl; constructor; auto.
Qed.

Lemma index_entries_forall (P : rdf_entry -> Prop) Hd : forall es mp mp',
  Forall P es -> Forall P (map snd mp) -> index_entries Hd es mp = Ok mp' ->
  Forall P (map snd mp').
Proof.
  induction es as [|e es IH]; intros mp mp' Hes Hmp H; simpl in H.
  - inversion H; subst; auto.
  - inversion Hes; subst. apply bind_ok in H. destruct H as (k & _ & H).
    eapply IH; [assumption| |exact H]. now apply upsert_forall.
Qed.

Definition cfg_inv (st : shared) : Prop :=
  Forall (fun m => forall k e, In (k, e) (mz_entries m) -> entry_uses (mz_hasher m) e) (sh_mzs st).

(* histories in which every merklizer is configured and every caller object comes from
   the merklizer's Options *)
Definition gstep_ok (g : gstep) : bool :=
  match g with
  | GMerklize (Some _) _ => true
  | GMerklize None _ => false
  | GAdd _ _ => true
  | GOn _ s => via_options s
  end.

Lemma gstep_indep Hd Hd' st g :
  cfg_inv st -> gstep_ok g = true ->
  gstep_run T Hd st g = gstep_run T Hd' st g /\ cfg_inv (fst (gstep_run T Hd' st g)).
Proof.
  intros Hinv Hok. destruct g as [[Hc|] es|k v|i s]; simpl in *; try discriminate.
  - pose proof (wrap_entry_uses Hc es) as Hu.
    rewrite (index_entries_indep Hc Hd Hd' _ [] Hu).
    rewrite (merklize_entries_st_indep Hc Hd Hd' _ (sh_tree st) Hu).
    split; [reflexivity|].
    destruct (index_entries Hd' (map (wrap_entry Hc (Some Hc)) es) []) as [mp| | |] eqn:Hidx;
      simpl; auto.
    destruct (merklize_entries_st T Hd' (sh_tree st) (map (wrap_entry Hc (Some Hc)) es)) as (t', r).
    destruct r as [u| | |]; simpl; auto.
    apply Forall_app. split; auto. constructor; [|constructor]. simpl.
    pose proof (index_entries_forall (entry_uses Hc) Hd' _ [] mp Hu (Forall_nil _) Hidx) as Hall.
    rewrite Forall_forall in Hall. intros k e Hin. apply Hall.
    apply in_map_iff. exists (k, e). auto.
  - split; [reflexivity|]. destruct (t_add T (sh_tree st) k v); simpl; auto.
  - split.
    + destruct (nth_error (sh_mzs st) i) as [m|] eqn:Hn; [|reflexivity].
      rewrite (run_step_indep (with_tree m (sh_tree st)) Hd Hd' s); auto.
      simpl. unfold cfg_inv in Hinv. rewrite Forall_forall in Hinv.
      apply Hinv. eapply nth_error_In; eauto.
    + destruct (nth_error (sh_mzs st) i); simpl; auto.
Qed.

Theorem shared_noninterference D D' : forall gs i st,
  cfg_inv st -> forallb gstep_ok gs = true -> grun T D i st gs = grun T D' i st gs.
Proof.
  induction gs as [|g gs IH]; intros i st Hinv Hok; simpl; [reflexivity|].
  simpl in Hok. apply andb_true_iff in Hok. destruct Hok as (Hg & Hgs).
  destruct (gstep_indep (D i) (D' i) st g Hinv Hg) as (Heq & Hinv').
  rewrite Heq. destruct (gstep_run T (D' i) st g) as (st1, o). simpl in Hinv'.
  rewrite (IH (S i) st1 Hinv' Hgs). reflexivity.
Qed.

Corollary shared_noninterference_init D D' gs :
  forallb gstep_ok gs = true ->
  grun T D 0 shared_init gs = grun T D' 0 shared_init gs.
Proof. intros H. apply shared_noninterference; auto. constructor. Qed.

(* every key and value hash the configured merklizer stores is produced by Hc *)
Theorem configured_entries Hd F Hc ds m :
  merklize_ds T Hd F (Some Hc) None ds = Ok m ->
  mz_hasher m = Hc /\
  forall k e, In (k, e) (mz_entries m) ->
    re_hasher e = Some Hc /\ p_hasher (re_key e) = Some Hc /\
    hash_path Hc (p_parts (re_key e)) = Ok k /\
    exists vh, mk_value_entry Hc (re_val e) = Ok vh /\
               In (hash_of_z k, hash_of_z vh) (leaves (mz_tree m)).
Proof.
  intros Hm. destruct (merklize_ds_wf _ _ _ _ _ _ Hm) as (Hwf & Hh). simpl in Hh.
  split; [exact Hh|]. intros k e Hin.
  destruct (wf_member _ _ Hwf _ _ Hin) as ((A & B) & C & _ & vh & D0 & _ & E0).
  rewrite Hh in *. repeat split; auto. eauto.
Qed.
End NonInterference.

(* ---- integer ranges follow the configured hasher's prime ---- *)
Section Prime.
Variable F : floats.
Variable p : Z.

Definition from_convert (e : entry) : Prop :=
  (exists lex, convert F (e_dt e) lex p = Ok (e_val e)) \/
  (e_dt e = ""%string /\ exists s, e_val e = XStr s).

Lemma graph_entries_conv r ds g counts : forall l seen out out',
  Forall from_convert out ->
  graph_entries F p r ds g counts l seen out = Ok out' -> Forall from_convert out'.
Proof.
  induction l as [|(i, qd) l IH]; intros seen out out' Hout H; simpl in H.
  - inversion H; subst; auto.
  - apply bind_ok in H. destruct H as (k & _ & H).
    destruct (qo qd) as [v|b|v dt] eqn:Hq.
    + (* IRI *)
      destruct (assoc qkey_eqb k counts) as [[|c']|]; try discriminate.
      destruct c' as [|c''].
      * apply bind_ok in H. destruct H as (pth & _ & H). eapply IH; [|exact H].
        apply Forall_app. split; auto. constructor; [|constructor]. right. simpl. eauto.
      * apply bind_ok in H. destruct H as (pth & _ & H). eapply IH; [|exact H].
        apply Forall_app. split; auto. constructor; [|constructor]. right. simpl. eauto.
    + (* blank *)
      destruct (assoc qkey_eqb k (children r)); [|discriminate]. eapply IH; eauto.
    + (* literal *)
      apply bind_ok in H. destruct H as (x & Hx & H).
      destruct (assoc qkey_eqb k counts) as [[|c']|]; try discriminate.
      destruct c' as [|c''].
      * apply bind_ok in H. destruct H as (pth & _ & H). eapply IH; [|exact H].
        apply Forall_app. split; auto. constructor; [|constructor]. left. simpl. eauto.
      * apply bind_ok in H. destruct H as (pth & _ & H). eapply IH; [|exact H].
        apply Forall_app. split; auto. constructor; [|constructor]. left. simpl. eauto.
Qed.

Lemma fold_graphs_conv (ds : dataset) (r : rel) : forall gs acc out',
  fold_left (fun acc g =>
      out <- acc ;;
      match lookup_graph ds g with
      | Some qsl =>
        counts <- count_entries qsl [] ;;
        graph_entries F p r ds g counts (index_from 0 qsl) [] out
      | None => Ok out
      end) gs acc = Ok out' ->
  (forall out, acc = Ok out -> Forall from_convert out) -> Forall from_convert out'.
Proof.
  induction gs as [|g gs IH]; intros acc out' H Hacc; simpl in H.
  - auto.
  - eapply IH; [exact H|]. intros out Ho.
    apply bind_ok in Ho. destruct Ho as (o & Ho & Hg).
    destruct (lookup_graph ds g) as [qsl|].
    + apply bind_ok in Hg. destruct Hg as (counts & _ & Hg).
      eapply graph_entries_conv; [|exact Hg]. auto.
    + inversion Hg; subst. auto.
Qed.

Theorem entries_from_rdf_conv ds es :
  entries_from_rdf F p ds = Ok es -> Forall from_convert es.
Proof.
  unfold entries_from_rdf. intros H.
  apply bind_ok in H. destruct H as (u & _ & H).
  destruct (lookup_graph ds default_graph); [|discriminate].
  apply bind_ok in H. destruct H as (r & _ & H).
  eapply fold_graphs_conv; [exact H|]. intros out Ho. inversion Ho. constructor.
Qed.
End Prime.

(* Every integer-typed entry of a merklizer configured with Hc lies in the range of
   ITS prime and is stored as v / prime(Hc) + v — whatever the default hasher is. *)
Theorem prime_follows_configured T Hd F Hc ds m :
  odd_modulus (h_prime Hc) ->
  merklize_ds T Hd F (Some Hc) None ds = Ok m ->
  forall k e ik, In (k, e) (mz_entries m) -> classify (re_dt e) = DInt ik ->
  exists z, re_val e = XBig z /\
            lo ik (h_prime Hc) <= z <= hi ik (h_prime Hc) /\
            In (hash_of_z k, hash_of_z (enc (h_prime Hc) z)) (leaves (mz_tree m)).
Proof.
  intros Hodd Hm k e ik Hin Hcl.
  destruct (configured_entries T Hd F Hc ds m Hm) as (Hh & Hall).
  destruct (Hall _ _ Hin) as (_ & _ & _ & vh & Hvh & Hleaf).
  (* where does e come from? *)
  pose proof Hm as Hm'. unfold merklize_ds, entries_from_rdf_h in Hm'. simpl in Hm'.
  apply bind_ok in Hm'. destruct Hm' as (es & Hes & Hfrom).
  apply bind_ok in Hes. destruct Hes as (es0 & Hes0 & Hes). inversion Hes; subst es; clear Hes.
  destruct (merklize_from_entries_wf T _ _ _ _ (wrap_entry_uses Hc es0) Hfrom) as (_ & _ & Hsnd).
  assert (Hine : In e (map (wrap_entry Hc (Some Hc)) es0)).
  { rewrite <- Hsnd. apply in_map_iff. exists (k, e). auto. }
  apply in_map_iff in Hine. destruct Hine as (e0 & <- & Hin0).
  pose proof (entries_from_rdf_conv F _ ds es0 Hes0) as Hc0. rewrite Forall_forall in Hc0.
  simpl in Hcl, Hvh |- *.
  destruct (Hc0 _ Hin0) as [(lex & Hcv)|(Hdt & _)].
  - destruct (convert_int_shape _ _ _ _ _ _ Hcl Hcv) as (z & Hz). rewrite Hz in Hcv.
    apply (convert_int_accept F _ lex _ ik z Hodd Hcl) in Hcv. destruct Hcv as (_ & Hr).
    exists z. split; [exact Hz|split; [exact Hr|]].
    rewrite Hz in Hvh. cbn [mk_value_entry] in Hvh.
    rewrite (mk_value_bigint_in_range Hc z Hodd (range_within_field ik _ z Hodd Hr)) in Hvh.
    inversion Hvh; subst. exact Hleaf.
  - rewrite Hdt in Hcl. vm_compute in Hcl. discriminate.
Qed.

(* ------------------------------------------------------------------ *)
(* Examples: the hypotheses are satisfiable, the statements not vacuous *)
(* ------------------------------------------------------------------ *)
Module Examples.
Open Scope string_scope.

(* toy hashers (prime 1009) distinguished by a salt; toy tree over the "field" 10007 *)
Definition toyH (salt : Z) : hasher :=
  {| h_prime := 1009;
     h_hash := fun l => OV ((fold_left (fun a x => a * 31 + x + salt) l 7) mod 1009);
     h_bytes := fun s => OV ((Z.of_nat (String.length s) * 17 + salt) mod 1009) |}.
Definition toyT : tparams :=
  mktp (fun a b => (a * 3 + b * 5 + 1) mod 10007) (fun a b => (a * 7 + b * 11 + 2) mod 10007)
       40 10007.
Definition F0 : floats :=
  {| f_parse := fun _ => None; f_canon := fun _ => None; f_of_int := fun _ => None |}.
Definition q0 (p o : node) : quad := {| qs := NIri "urn:a"; qp := p; qo := o; qg := None |}.
Definition ds0 : dataset :=
  [("@default", [q0 (NIri "http://p/one") (NLit "x" xsd_string);
                 q0 (NIri "http://p/three") (NLit "-5" xsd_integer)])].
Definition p_one := [PStr "http://p/one"].
Definition p_three := [PStr "http://p/three"].
Definition p_absent := [PStr "http://p/absent"; PInt 1].

Example tparams_ok_toy : tparams_ok toyT.
Proof.
  repeat split; try (intros a b; apply Z.mod_pos_bound); simpl; lia.
Qed.

Example odd_modulus_toy : odd_modulus (h_prime (toyH 5)).
Proof. split; [simpl; lia|reflexivity]. Qed.

(* a configured merklizer with two entries exists *)
Example merklize_ok :
  exists m, merklize_ds toyT (toyH 0) F0 (Some (toyH 5)) None ds0 = Ok m /\
            List.length (mz_entries m) = 2%nat /\ (1 <= tp_maxlev toyT)%nat.
Proof. eexists. split; [vm_compute; reflexivity|]. split; [reflexivity|simpl; lia]. Qed.

(* member: existence proof, Value, verifies; the integer -5 is stored as 1009 - 5 *)
Example member_proof :
  run toyT F0 (fun _ => toyH 0) (Some (toyH 5)) ds0 [SProof PKOptions p_three] =
  Ok [OProof (Ok (mkproof true [0; 1404] None, Some (XBig (-5), Ok 1004), 465, Ok true))].
Proof. vm_compute. reflexivity. Qed.

(* non-member: non-existence proof, no Value, verifies; Entry / JSONLDType fail *)
Example nonmember_proof :
  run toyT F0 (fun _ => toyH 0) (Some (toyH 5)) ds0
      [SProof PKOptions p_absent; SEntry PKOptions p_absent; SType PKOptions p_absent;
       SType PKOptions p_one] =
  Ok [OProof (Ok (mkproof false [316] None, None, 822, Ok true));
      OEntry (Err "entry-not-found"); OType (Err "entry-not-found"); OType (Ok xsd_string)].
Proof. vm_compute. reflexivity. Qed.

(* the model really consults the default hasher where Go does: without WithHasher
   the observations depend on it ... *)
Example default_matters_when_not_configured :
  run toyT F0 (fun _ => toyH 0) None ds0 [SRoot] <> run toyT F0 (fun _ => toyH 1) None ds0 [SRoot].
Proof. vm_compute. discriminate. Qed.

(* ... and a Path made by the package-level merklize.NewPath keeps the default
   hasher by design, which is why non-interference is stated for objects made
   through the merklizer's Options *)
Example package_path_uses_default :
  run toyT F0 (fun _ => toyH 0) (Some (toyH 5)) ds0 [SPathKey PKPackage p_one] <>
  run toyT F0 (fun _ => toyH 1) (Some (toyH 5)) ds0 [SPathKey PKPackage p_one].
Proof. vm_compute. discriminate. Qed.

(* regression witness of D7 (fixed by 72b544a): entries whose own hasher is left
   unset make the tree depend on the default hasher although one is configured *)
Example d7_unset_entry_hasher_interferes :
  let es := map (wrap_entry (toyH 5) None)
                [{| e_key := p_one; e_val := XStr "x"; e_dt := xsd_string |}] in
  (r <- merklize_from_entries toyT (toyH 0) (toyH 5) None es ;; Ok (mz_root toyT r)) <>
  (r <- merklize_from_entries toyT (toyH 1) (toyH 5) None es ;; Ok (mz_root toyT r)).
Proof. vm_compute. discriminate. Qed.
(* a shared caller-provided tree: merklizer 0 reads its Root() before and after the tree
   grows (a direct Add, then a second document); the roots differ and its entry still
   gets an existence proof that verifies against the CURRENT root *)
Definition es_a : list entry := [{| e_key := p_one; e_val := XStr "x"; e_dt := xsd_string |}].
Definition es_b : list entry := [{| e_key := p_three; e_val := XBig (-5); e_dt := xsd_integer |}].
Example shared_growth :
  match grun toyT (fun _ => toyH 0) 0 shared_init
             [GMerklize (Some (toyH 5)) es_a; GOn 0 SRoot; GAdd 77 5;
              GMerklize (Some (toyH 5)) es_b; GOn 0 SRoot; GOn 0 (SProof PKOptions p_one);
              GOn 1 (SProof PKOptions p_one)] with
  | (st, [GOMerk (Ok _); GOStep (Some (ORoot r1)); GOAdd (Ok _); GOMerk (Ok _);
          GOStep (Some (ORoot r2)); GOStep (Some (OProof (Ok (pr, Some _, _, Ok true))));
          GOStep (Some (OProof (Err _)))]) =>
      r1 <> r2 /\ ex pr = true /\ List.length (sh_mzs st) = 2%nat
  | _ => False
  end.
Proof. vm_compute. split; [discriminate|split; reflexivity]. Qed.
End Examples.

(* ---- Path.Append / Path.Prepend keep hasher and order ---- *)
Lemma path_build_one_go (pk : pkind) Hd m (pre mid post : list part) :
  path_prepend (path_append (mk_path Hd m pk mid) post) pre = mk_path Hd m pk (pre ++ mid ++ post).
Proof. destruct pk; reflexivity. Qed.

(* hence the key (and with it Proof / Entry / JSONLDType) of a path assembled piecewise is
   that of the path built in one go, and for paths made through the merklizer's Options it
   never depends on the default hasher *)
Lemma path_build_key Hd Hd' m pk (pre mid post : list part) :
  pk <> PKPackage ->
  path_mt_entry Hd (path_prepend (path_append (mk_path Hd m pk mid) post) pre) =
  hash_path (mz_hasher m) (pre ++ mid ++ post) /\
  path_mt_entry Hd' (path_prepend (path_append (mk_path Hd' m pk mid) post) pre) =
  hash_path (mz_hasher m) (pre ++ mid ++ post).
Proof. intros Hpk. rewrite !path_build_one_go. destruct pk; try contradiction; split; reflexivity. Qed.

Lemma path_append_hasher p parts : p_hasher (path_append p parts) = p_hasher p.
Proof. reflexivity. Qed.
Lemma path_prepend_hasher p parts : p_hasher (path_prepend p parts) = p_hasher p.
Proof. reflexivity. Qed.
